"""Property checks served by the shared channel.py verification run (props/chanworld.py)."""
from vlib.report import Check
from vlib import world
from props import chanworld

TRUST = [
    "thread-modular reduction of DESIGN.md section 5 (rely/guarantee): roles IO/W, monitor rule for requests_lock and outbuf_lock, ownership token `requests != []`; its soundness is a paper argument",
    "Lock/Condition model: mutual exclusion, wait() atomically releases/re-acquires, no spurious wake-ups; after wait() the notifiers' guarantee (total < high watermark or disconnected) is assumed -- the notifying side is an obligation (W4)",
    "assumed, not proved: total_outbufs_len >= 0 (consequence of the accounting invariant total == sum of buffer lengths, which needs a sum over a list of buffers)",
    "kernel socket model: socket.send accepts any 0..len(data) bytes or fails with an arbitrary errno, socket.recv returns any bytes or fails likewise (the bodies of wasyncore.dispatcher.send / recv are verified over this model); wasyncore.dispatcher.close and the poll loop are assumed",
    "Task.service is used by contract (demonic application: ClientDisconnected, any Exception, any BaseException; arbitrary close_on_finish / wrote_header; may set channel.will_close through a failed flush)",
    "pyvc VC generator, builtin model, cvc5/z3",
]
NOT_DECIDED = "liveness conclusions (eventual delivery, release of a paused producer) and kernel readiness behaviour are outside any contract on this code and are not decided"

SELECT = {
    # C04 also carries the supporting obligations of the shared world (representation invariants of the output state, loop
    # invariants of the flush loops, frames): they are what "bytes leave in order, once" rests on
    "C04": ("R3:", "R1[", "C04-", "monitor[", "total-never-grows", "returns-whether-sent", "accepted-range", "coverage:", "pre:owns-output-state",
            "/inv:", "/inv-entry:", "/inv-preserved:", "frame:", "ensures:lookahead", "pre:worker", "pre:io", "__init__@IO/ensures:connected", "pre:callee-invariant",
            "queued-behind-all-pending-output", "pre:C19-after-every-earlier-response"),
    "C05": ("W1-", "W2", "W4-", "W5-", "R5:", "C05-", "lock:", "coverage:", "raises:OSError", "raises-only"),
    "C11": ("R6:", "C11-", "close-when-flushed-means-queue-dropped", "R1[req]", "coverage:", "service@W[service]/loop0"),
    "C12": ("C12-", "W4-", "W5-", "R5:", "pre:owns-output-state", "R1[out]", "disconnected-before-the-lock-is-released", "lock:", "W1-", "coverage:", "pre:numbytes", "pre:nonneg"),
    "C13": ("C13-", "__init__@IO/raises", "__init__@IO/coverage", "R4:", "pre:worker-never-closes", "no-teardown", "connected-only-cleared", "coverage:", "_flush_some@W/raises", "_flush_some@IOL/raises", "handle_write@IO/raises", "write_soon@W/raises", "handle_close@IO/",
            "dispatcher.send@", "dispatcher.recv@", "handle_read@IO/", "del_channel@IO/"),
    "C19": ("C19-", "pre:partial-expecting-request", "pre:holds-requests-lock", "coverage:", "pre:owns-output-state", "R1[req]:sent_continue", "R1[req]:request-"),
}
FUNCS = {
    "C04": None, "C05": None, "C11": None, "C12": None, "C13": None, "C19": None,
}
EXPL = {
    "C04": "Sequential queue and output clauses on the real channel functions under the ownership discipline: requests/request written only under requests_lock, every access to the output state under outbuf_lock on either thread (R1/R3), the I/O thread only appends to `requests` and a worker only pops, when service() releases requests_lock after the pop a request still queued has exactly one task and no task exists without one, reading stops while output is pending, flushing never grows the pending total and tears down only with do_close; plus the representation and loop invariants of the shared world, the bodies of the buffer operations the channel relies on, and the FIFO stand-in on the real buffers.",
    "C05": "Wake discipline as postconditions: a worker that leaves the flush threshold reached, finishes service() or is about to block has pulled the trigger since its last wait (W1, W2, R5); the I/O-side flush notifies the producer whenever it leaves the backlog at or below the mark (W4) and handle_close always notifies (W5); close flags / pending output make the channel writable; every submission to the worker pool notifies the workers' condition and a woken worker survives (add_task, handler_thread).",
    "C11": "Decision monotonicity: server.add_task is reached only with neither close flag set and with requests_lock held; close_when_flushed is published under requests_lock before the queue is dropped; received() parses only while no close decision is visible under the lock; readable() is false after the decision; handle_write keeps the decision; the parser's own close decision and a response that turns out undelimited (too few bytes) both end in close_on_finish (build_response_header, WSGITask.execute).",
    "C12": "Bound and release: at the append point of write_soon the backlog is at or below the high watermark or the client is gone (so pending <= watermark + one write), for every watermark/send_bytes value; the producer pulls the trigger before each wait; the I/O side notifies at or below the mark; teardown clears `connected` and notifies before it releases the lock; every flush holds outbuf_lock (no concurrent flush can duplicate or reorder output); the buffer bodies behind the accounting and the FIFO stand-in.",
    "C13": "Listener safety: for every placement of OSError on accept(), setsockopt() and the HTTPChannel constructor (getsockopt/setblocking), nothing escapes handle_accept, the listener keeps accepting and at most one descriptor is added. Role frames: on a worker no send may tear the channel down (do_close false at every send reachable from service), a worker never calls handle_close/close/del_channel; teardown only clears `connected`.",
    "C19": "100-continue clauses: send_continue is called only for a partial expecting request whose headers are finished, with requests == [], the latch clear and requests_lock held (both call sites), it latches, appends the interim line to the LAST output buffer (behind everything pending) and does not change the request's completed flag; the latch belongs to the request being read; a pending request is never left completed when the lock is released; parse_header sets expect_continue only for HTTP/1.1.",
}


def main_for(prop, argv=None, level="other"):
    ck = Check(prop, argv, level=level)
    res = chanworld.run(ck)
    pats = SELECT[prop] + (("frame:",) if prop == "C04" else ())
    world.report(ck, res, select=lambda n: any(p in n for p in pats))
    if prop in ("C04", "C12"):
        # the channel functions use the output buffers through their FIFO contracts (append / get / skip / len): the bodies behind
        # those contracts are part of what "bytes leave once, in order" and the backlog accounting rest on (also C17's subject)
        bufs = ["buffers.OverflowableBuffer.__len__", "buffers.OverflowableBuffer.append", "buffers.OverflowableBuffer.get", "buffers.OverflowableBuffer.skip",
                "buffers.OverflowableBuffer.close", "buffers.FileBasedBuffer.__len__", "buffers.FileBasedBuffer.append", "buffers.FileBasedBuffer.get",
                "buffers.FileBasedBuffer.skip", "buffers.FileBasedBuffer.__init__"]
        res3 = world.run_functions(ck, ["buffers"], bufs, timeout=20)
        from vlib.modelreplay import make_replayer
        world.report(ck, res3, replayer=make_replayer(ck, ["buffers"]))
        # the same bounded stand-in as C17: the assumed file model and the migrations, on the real classes (decides natively whether a refuted
        # proof-internal obligation of the buffer bodies is a broken proof or a broken queue)
        k = 2 if ck.tier == "quick" else 3
        payload = {"k": k, "overflows": [0, 1, 8191, 8192, 8193, 20000], "seed": ck.seed, "random": 200 if ck.tier == "quick" else 2000}
        rep = ck.native("histories", payload, timeout=3000, module="C17")
        ck.bounded.append({"label": "bounded", "what": "real OverflowableBuffer over real BytesIO/TemporaryFile vs a bytearray queue",
                           "bound": "all operation histories of length <= %d over 17 operations x 6 overflow thresholds, plus %d seeded random histories" % (k, payload["random"]),
                           "evaluations": rep.get("total", 0), "failures": rep.get("failures", rep)})
        if rep.get("failures"):
            f = rep["failures"][0]
            ck.fail("buffers.OverflowableBuffer/bounded:fifo-histories", "history:" + repr(f)[:80], "bounded stand-in: real buffer deviates from a FIFO byte queue: %s" % f["problem"],
                    replay={"history": f, "label": "bounded"}, reproduced=True)
        ck.trusted.append("file model (content, pos) of contracts/buffers.py for BytesIO / TemporaryFile (assumed; exercised by the bounded stand-in)")
    if prop == "C04":
        # connections hand their tasks to the worker pool: tasks leave the pool's queue in submission order, each taken once
        # (monitor invariant submitted == taken ++ queue on the real add_task / handler_thread)
        resq = world.run_functions(ck, ["dispatcher"], ["task.ThreadedTaskDispatcher.add_task", "task.ThreadedTaskDispatcher.handler_thread"],
                                   timeout=20, hooks_mod="contracts.dispatcher")
        world.report(ck, resq)
    if prop == "C04":
        # a request in progress is answered: the idle sweep of the server marks no connection that still has a request queued or running
        resm = world.run_functions(ck, ["server"], ["server.BaseWSGIServer.maintenance"], timeout=20, hooks_mod="contracts.server")
        world.report(ck, resm, select=lambda n: "reaps-only-idle-and-stale-connections" in n or "coverage:" in n)
    if prop == "C04" and ck.tier == "thorough":
        # the two facts the channel world only ASSUMES (backlog counter non-negative, a pending request is never completed) and the monitor
        # invariants, judged on the executions of the repository's tests
        from vlib.runtime import run_monitor
        run_monitor(ck, ("channel.",))
    if prop == "C05":
        # "a queued request is never left unserviced while a worker sleeps": every submission to the pool notifies the workers' condition
        resd = world.run_functions(ck, ["dispatcher"], ["task.ThreadedTaskDispatcher.add_task", "task.ThreadedTaskDispatcher.handler_thread"],
                                   timeout=20, hooks_mod="contracts.dispatcher")
        # ... and a woken worker survives (a worker that dies on a spurious wake-up leaves the next task without anyone to run it)
        world.report(ck, resd, select=lambda n: "C05-" in n or "coverage:" in n or "lock:" in n or "handler_thread/raises" in n)
        # ... and the wake-up itself: every pull_trigger() call writes to the pipe (no "already pulled" shortcut)
        rest5 = world.run_functions(ck, ["trigger"], ["trigger._triggerbase.pull_trigger"], timeout=20, hooks_mod="contracts.trigger")
        world.report(ck, rest5)
    if prop == "C11":
        # a close decision taken by the PARSER (ambiguous framing) must reach the response: build_response_header honours request.connection_close,
        # so the requests buffered behind such a message are dropped like after any other closing response
        from props import taskworld
        rest = taskworld.run(ck, ["task.Task.build_response_header", "task.WSGITask.execute", "task.Task.service"])
        # ... and a response that turns out not to be delimited (fewer bytes than announced, or cut short by a socket error) closes the connection
        world.report(ck, rest, select=lambda n: "C01-F7-parser-close-decision-honoured" in n or "C03-short-body-closes" in n or "coverage:" in n
                     or "C09-a-socket-error-during-the-response-closes-the-connection" in n or "C03-socket-error-closes" in n)
        # ... and the parser takes that decision for every ambiguous framing (Content-Length next to chunked, Transfer-Encoding off HTTP/1.1)
        resp11 = world.run_functions(ck, ["adj", "buffers_abs", "receiver", "parser"], ["parser.HTTPRequestParser.parse_header", "parser.HTTPRequestParser.received"],
                                     timeout=20 if ck.tier == "quick" else 60, hooks_mod="contracts.parser")
        # ... and a body whose framing the receiver found faulty is an error request (answered 400 and closed), never a complete one
        world.report(ck, resp11, select=lambda n: "C01-content-length-next-to-chunked-closes" in n or "C01-transfer-encoding-on-non-1.1-closes" in n or "coverage:" in n
                     or "C06-a-body-framing-error-refuses-the-message" in n)
    if prop == "C19":
        # "never for HTTP/1.0": the flag the channel acts on is set by parse_header, only for a 1.1 request that asks for it
        resp = world.run_functions(ck, ["adj", "buffers_abs", "receiver", "parser"], ["parser.HTTPRequestParser.parse_header", "parser.HTTPRequestParser.received"],
                                   timeout=20 if ck.tier == "quick" else 60, hooks_mod="contracts.parser")
        # ... and the mark the channel waits for (head complete) is set for every request that still waits for its body
        world.report(ck, resp, select=lambda n: "expect-continue-only-on-1.1" in n or "coverage:" in n or "C19-" in n)
    if prop == "C13":
        # listener safety: socket errors on accept / option calls / channel set-up never escape handle_accept nor stop the listener
        res2 = world.run_functions(ck, ["server"], ["server.BaseWSGIServer.handle_accept"], timeout=20, hooks_mod="contracts.server")
        world.report(ck, res2)
        # event dispatch of the loop: a fault in one channel's handler reaches that channel's handle_error() and nothing else
        res4 = world.run_functions(ck, ["wasyncore_loop"], ["wasyncore.read", "wasyncore.write", "wasyncore._exception"], timeout=20, hooks_mod="contracts.wasyncore_loop")
        world.report(ck, res4)
    ck.trusted.extend(TRUST)
    ck.assumptions.append(NOT_DECIDED)
    ck.assumptions.append("every interleaving is covered through the reduction, not by exploring schedules; failed discipline obligations have no data counterexample (no-failing-input-found)")
    return ck.finish(EXPL[prop])
