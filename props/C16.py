"""C16 -- trusted proxy headers: only trusted kinds, only trusted hops, never a crash."""
from vlib.report import Check
from vlib import world

FUNCS = ["proxy_headers.parse_proxy_headers", "utilities.undquote"]


def main(argv=None):
    ck = Check("C16", argv, level="proof")
    res = world.run_functions(ck, ["proxy"], FUNCS, timeout=20 if ck.tier == "quick" else 60, hooks_mod="contracts.proxy")
    world.report(ck, res)
    # the quoting gate of undquote(): QUOTED_STRING_RE (as compiled in the tree under check) used as `match` + `end() == len` accepts exactly
    # RFC 9110's quoted-string -- decided on automata for values of every length, witness replayed through the real undquote()
    import time as _t
    from vlib import relang as rl
    from spec import rfc
    t0 = _t.time()
    obn = "utilities.undquote/site:quoted-value/lang-eq"
    try:
        pat = rl.PyPattern(ck.repo.module("rfc7230").QUOTED_STRING_RE)
        code_re = pat.language("fullmatch")
        masks = set()
        rl.masks_in(code_re, masks); rl.masks_in(rfc.QUOTED_STRING, masks)
        for b in (b'"', b"\\", b"\t", b" ", b"\x7f", b"\x00"):
            masks.add(rl.mask_of(b))
        masks.add(rl.mask_range(0x80, 0xFF))
        alpha = rl.Alphabet(masks)
        diff = rl.dfa(alpha, code_re) ^ rl.dfa(alpha, rfc.QUOTED_STRING)
        if diff.is_empty():
            ck.ob(obn, "discharged", backend="relang-dfa", secs=_t.time() - t0, clause="a value that starts and ends with DQUOTE is accepted by undquote() iff it is a quoted-string")
        else:
            w = diff.shortest()
            rep = ck.native("undquote_one", {"value": w.decode("latin-1")}, timeout=60)
            real_accepts, spec_accepts = rep.get("accepted"), rl.dfa(alpha, rfc.QUOTED_STRING).accepts(w)
            if real_accepts is None or real_accepts == spec_accepts:
                ck.ob(obn, "undecided", backend="relang", secs=_t.time() - t0, detail={"reason": "witness %r does not replay on the real undquote()" % (w,), "native": rep})
            else:
                ck.fail(obn, "witness:" + w.hex(), "undquote(%r) is %s although the value is %s a quoted-string" % (w.decode("latin-1"), "accepted" if real_accepts else "refused", "" if spec_accepts else "not"),
                        replay={"witness": repr(w), "native": rep}, reproduced=True)
                ck.ob(obn, "violated", backend="relang-dfa", secs=_t.time() - t0)
    except Exception as ex:
        ck.ob(obn, "undecided", backend="relang", secs=_t.time() - t0, detail={"reason": "quoted-string gate not analysable: %r" % (ex,)})
    # bounded stand-ins (labelled bounded, never counted as proved): exact hop selection and hostile values on the real middleware
    for routine, what, payload in (("hops_check", "hop selection: the trusted_proxy_count-th hop from the right (leftmost if fewer) for X-Forwarded-For and Forwarded, no untrusted hop value reaches the application",
                                    {"max_hops": 5, "max_count": 4}),
                                   ("hostile_check", "34 hostile values x 6 header kinds x counts 1..2 never raise and yield 200 or 400", {})):
        rep = ck.native(routine, payload, timeout=600)
        ck.bounded.append({"label": "bounded", "what": what, "bound": str(payload) if payload else "fixed list in replay/C16_replay.py", "evaluations": rep.get("total", 0), "failures": rep.get("failures", rep)})
        if rep.get("failures"):
            f = rep["failures"][0]
            ck.fail("proxy_headers.proxy_headers_middleware/bounded:%s" % routine, "case:" + repr(f)[:100], "bounded stand-in: %s" % (f,), replay={"case": f, "label": "bounded"}, reproduced=True)
    # the values the property lists as uninterpretable must each give 400 (bounded: a fixed table on the real middleware)
    rep = ck.native("refusal_check", {}, timeout=600)
    ck.bounded.append({"label": "bounded", "what": "uninterpretable proxy header values (pair without '=', padded tokens, bad quoting, unsupported scheme, several values, empty host) yield 400",
                       "bound": "fixed table of %s values in replay/C16_replay.py" % rep.get("total"), "evaluations": rep.get("total", 0), "failures": rep.get("failures", rep)})
    seen = set()
    for f in rep.get("failures", []):
        key = "class:" + f["class"]
        if key in seen:
            continue
        seen.add(key)
        ck.fail("proxy_headers.proxy_headers_middleware/bounded:refusal_check", key,
                "bounded stand-in: %s header %r (%s) answered %s instead of 400" % (f["kind"], f["value"], f["class"], f["status"]),
                replay={"case": f, "label": "bounded"}, reproduced=True)
    # a host supplied by the trusted hop, with or without a port, incl. bracketed IPv6 (bounded: a fixed table on the real middleware)
    reph = ck.native("host_port_check", {}, timeout=600)
    ck.bounded.append({"label": "bounded", "what": "SERVER_NAME / SERVER_PORT / HTTP_HOST for hosts with and without a port, bracketed IPv6 included, from X-Forwarded-Host and Forwarded",
                       "bound": "fixed table of %s values in replay/C16_replay.py" % reph.get("total"), "evaluations": reph.get("total", 0), "failures": reph.get("failures", reph)})
    for f in (reph.get("failures") or [])[:2]:
        ck.fail("proxy_headers.proxy_headers_middleware/bounded:host_port_check", "value:" + f["value"],
                "bounded stand-in: host %r from %s gives %s, expected %s" % (f["value"], f["kind"], f.get("got", f.get("exception")), f.get("expected")),
                replay={"case": f, "label": "bounded"}, reproduced=True)
    ck.trusted.extend(["builtin string model (split/strip/partition/rsplit/lower/join), regex gates of undquote as predicates",
                       "trusted_proxy_headers is any subset of the six known kinds (Adjustments validates the names); trusted_proxy_count >= 1",
                       "cut points at the top-level blocks of parse_proxy_headers; the value-flow invariants carried across them are proved at each cut",
                       "pyvc, cvc5/z3"])
    ck.assumptions.extend(["exact string images (REMOTE_ADDR for bracketed IPv6 with port etc.) and the exact hop index are not proved here; the per-element reset obligation covers leakage between Forwarded elements",
                           "an empty host (host=\"\", host=:80) is accepted by the code rather than refused: recorded limitation of this check, see DESIGN.md"])
    return ck.finish("parse_proxy_headers is verified for every environ, count and subset of trusted kinds: only MalformedProxyHeader can escape (every index, key look-up and set removal is an obligation); "
                     "each metadata key changes only if a header kind that can supply it is trusted (value-flow invariants across cut points); untrusted kinds stay in the returned strip list; "
                     "the Forwarded accumulators are reset for every element, so values cannot leak from one hop to the next.")


if __name__ == "__main__":
    from vlib.report import run_check
    run_check(main)
