"""C02 -- parsing does not depend on how the byte stream is split across reads."""
from vlib.report import Check
from vlib import world

MODS = ["adj", "buffers_abs", "receiver", "parser"]
FUNCS = ["receiver.FixedStreamReceiver.received", "receiver.ChunkedReceiver.received", "parser.HTTPRequestParser.received"]
LEMMAS = ["lemma_c02.first_terminator_is_stable", "lemma_c02.fixed_split", "lemma_c02.head_split", "lemma_c02.trailer_split"]

# the exact-consumption / carry-over clauses the split lemmas are built on, plus the loop invariants that carry them
KEEP = ("C02-", "head-delimitation", "head-incomplete", "head-progress", "ensures:consumed", "ensures:appended", "ensures:remain", "ensures:completed",
        "completed-when-nothing-remains", "not-completed-consumes-all", "completed-returns-0", "result-range", "trailer-phase", "orig-size", "s-bounded",
        "trailer-untouched", "body-count", "coverage:", "raises-only", "inv:", "inv-", "variant")


def classify(f):
    """failure key of a deviating segmentation: a recorded CLASS of deviations, or the concrete stream and cut set"""
    w, sp = f["whole"].get("requests"), f["split"].get("requests")
    if f["differs_in"] == ["requests"] and w and sp and len(w) == len(sp) and w[:-1] == sp[:-1]:
        a, b = dict(w[-1]), dict(sp[-1])
        ea, eb = a.pop("error"), b.pop("error")
        if a == b and ea and eb and {ea[0], eb[0]} == {"RequestEntityTooLarge", "BadRequest"} and "max_request_body_size" in (f.get("adj") or {}):
            return "class:body-limit-vs-chunk-framing-error"
    return "%s cuts=%s" % (f["stream_name"], f["cuts"])


def main(argv=None):
    ck = Check("C02", argv, level="other")
    t = 30 if ck.tier == "quick" else 90
    res = world.run_functions(ck, MODS, FUNCS, timeout=t, hooks_mod="contracts.parser")
    lem = world.run_functions(ck, ["c02"], LEMMAS, timeout=t)
    applied = set()
    for r in lem:
        applied.update(r.get("contracts_applied", []))
    # the lemmas apply the contracts of the three `received` methods: their frame (modifies) clauses are part of what is relied on
    from vlib.modelreplay import make_replayer
    world.report(ck, res, select=lambda n: any(k in n for k in KEEP) or "/frame:" in n, also_used=applied, replayer=make_replayer(ck, MODS))
    world.report(ck, lem, select=lambda n: True)

    payload = ({"max_cuts": 1, "random_k": 40, "seed": ck.seed, "random_streams": 40} if ck.tier == "quick"
               else {"max_cuts": 2, "random_k": 400, "seed": ck.seed, "random_streams": 600})
    rep = ck.native("segment", payload, timeout=3000)
    entry = {"label": "bounded", "what": "real HTTPChannel.received (real parser, receivers, buffers) on a fixed corpus of 22 streams: whole vs byte-at-a-time vs every "
             "cut set of size <= %d vs %d random cut sets per stream; compared: queued requests up to the first closing one (fields, body, error), "
             "interim bytes sent, tasks started, carry-over of the unfinished request" % (payload["max_cuts"], payload["random_k"]),
             "bound": "corpus of 22 hand-written streams (35-122 bytes) with all cut sets of size <= %d, plus %d generated streams (VERIF_SEED) with all single cuts and random cut sets" % (payload["max_cuts"], payload["random_streams"])}
    if "error" in rep:
        entry["status"] = "error: " + str(rep)[:300]
        ck.ob("channel.HTTPChannel.received/bounded:segmentation", "undecided", kind="bounded", clause="bounded stand-in did not run: %s" % str(rep)[:200])
    else:
        entry.update({"schedules_run": rep["total"], "streams": rep["streams"], "deviations": len(rep["failures"]), "status": "held" if not rep["failures"] else "deviation"})
        seen = set()
        for f in rep["failures"]:
            key = classify(f)
            if key in seen or (not key.startswith("class:") and len(seen) >= 4):
                continue
            seen.add(key)
            ck.fail("channel.HTTPChannel.received/bounded:segmentation", key,
                    "bounded stand-in: the real channel yields different results for two segmentations of the same stream (%s): differs in %s" % (f["stream_name"], f["differs_in"]),
                    replay={"label": "bounded", "routine": "one", "payload": {"stream": f["stream"], "cuts": f["cuts"], "adj": f["adj"]}, "whole": f["whole"], "split": f["split"]},
                    reproduced=True)
    ck.bounded.append(entry)
    ck.trusted.extend([
        "pyvc VC generator and its Python-subset semantics; cvc5 1.0.3 / z3 5.1.0",
        "the lemma functions in /verif/lemmas/lemma_c02.py are verification artefacts (not repository code): they only call the real methods, and every such call is "
        "replaced by the callee's contract, which the same run verifies against the real body",
        "the lemmas are stated for all states of the stated phase, including ones the representation invariant excludes (invariants dropped in the lemma world: a stronger statement)",
    ])
    ck.assumptions.extend([
        "NOT proved: split-independence of the chunk phase of ChunkedReceiver (control line / data / terminator carry across several loop iterations in one call) and of the "
        "channel loop re-offering unconsumed bytes; both are covered only by the bounded stand-in. The general statement over all 2^(n-1) cut sets follows from the two-read "
        "lemmas by induction on the number of cuts only for the phases that have a lemma (head, fixed body, trailer); that induction is argued, not mechanised.",
        "head lemma is stated below the header size limit; at the limit the accept/refuse decision depends on header_bytes_received only, covered by the header-limit clause of C06",
        "integers are mathematical; byte strings are sequences of code points",
    ])
    return ck.finish("Two-read split lemmas (feeding a+b at once or a then b leaves the same consumed count, completion flag, collected body and carry-over) are proved for the "
                     "head phase of HTTPRequestParser.received, for FixedStreamReceiver.received and for the trailer phase of ChunkedReceiver.received, over the contracts "
                     "that the same run verifies against the real bodies (exact consumed-count clauses, carry-over clauses, first-error-wins). The chunk phase and the channel "
                     "loop are only exercised by a bounded segmentation stand-in on the real channel, reported separately and never counted as proved: level other.")


if __name__ == "__main__":
    from vlib.report import run_check
    run_check(main)
