"""C03 -- every response stream is well-framed and persistence is signalled truthfully."""
from vlib.report import Check
from vlib import world
from props import taskworld, chanworld

PATS = ("C03", "declared-length-sane", "head-sent", "length-counter", "empty-write", "written-nonneg", "counter-zero", "head-only", "nothing-counted",
        "build_response_header/cut", "coverage:", "frame:", "WSGITask.execute/cut", "has_body", "version-is", "C06-exact-length", "error-response-closes",
        "finish/raises", "C06-status-is-an-error-code", "pre:size-nonneg", "list-elem-fact:not_cl")
BUF = ["buffers.ReadOnlyFileBasedBuffer.prepare", "buffers.ReadOnlyFileBasedBuffer.get"]


def main(argv=None):
    ck = Check("C03", argv, level="proof")
    res = taskworld.run(ck)
    # a head that can be split by the application is not a well-framed response: the header-validation loop of start_response counts here too
    world.report(ck, res, select=lambda n: (any(p in n for p in PATS) and "C08" not in n and "C09" not in n) or "<start_response>/loop0/establishes" in n)
    res2 = world.run_functions(ck, ["buffers"], BUF, timeout=20)
    from vlib.modelreplay import make_replayer
    world.report(ck, res2, replayer=make_replayer(ck, ["buffers"]))
    # the channel side of "a closing response is delivered completely": handle_write promotes close_when_flushed only with an empty backlog
    res3 = chanworld.run(ck, [("channel.HTTPChannel.service", "W"), ("channel.HTTPChannel.handle_write", "IO")])
    world.report(ck, res3, select=lambda n: "close-when-flushed-means-queue-dropped" in n or "coverage" in n or "/C03-" in n)
    ck.trusted.extend([
        "demonic application model (contracts/task.py app_effect): start_response 0..2 times (second with/without exc_info) before returning, possibly once more at the first next(), optional use of the write callable, any exception at any point, a file wrapper or an arbitrary iterable as result; application precondition from the statement: a declared Content-Length is 1*DIGIT",
        "model channel: write_soon(bytes) appends to the ghost `wire` or raises ClientDisconnected",
        "hex(n)[2:].upper() is the upper-case hexadecimal numeral of n (builtin contract); client-side decodability of HEX CRLF data CRLF ... 0 CRLF CRLF is the standard chunked-coding round trip (paper lemma)",
        "cut points split build_response_header and WSGITask.execute; each segment starts from an arbitrary state satisfying the cut invariants (all of them proved at the cut)",
        "pyvc, cvc5/z3",
    ])
    ck.assumptions.extend(["the kernel actually closing the socket and the end-to-end client parser are outside the contracts (decodability is argued from the framing clauses)",
                           "composition of the per-function clauses into the stream-level statement is not one theorem"])
    return ck.finish("Per-function verification of the response path for every application behaviour: build_response_header's decision table (chunked iff HTTP/1.1 body without length; "
                     "undelimited body closes; 1.0 keep-alive only with a length; Connection: close honoured; close decision never retracted), write() framing on the ghost wire (chunk = HEX CRLF data CRLF; "
                     "declared length never exceeded and counted exactly; nothing for body-less statuses), finish() (head sent; chunked terminator; nothing after a HEAD head), execute() (too few bytes closes), "
                     "ErrorTask (exact length, closes), the file-wrapper size clamp, and service() turning close_on_finish into close_when_flushed with the queue dropped.")


if __name__ == "__main__":
    from vlib.report import run_check
    run_check(main)
