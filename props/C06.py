"""C06 -- oversize and malformed input is refused totally: error response, close, no crash."""
from vlib.report import Check
from vlib import world

MODS = ["adj", "buffers_abs", "receiver", "parser"]
FUNCS = ["receiver.FixedStreamReceiver.received", "receiver.ChunkedReceiver.received", "parser.HTTPRequestParser.received",
         "parser.HTTPRequestParser.parse_header", "parser.get_header_lines", "parser.split_uri"]

KEEP = ("C06-", "raises:", "raises-only", "coverage:", "frame:", "result-range", "progress", "variant", "limit", "completed-returns-0", "error-completes", "inv:", "inv-", "/pre:",
        "not-completed-consumes-all", "body-count", "list-elem-fact")


def main(argv=None):
    ck = Check("C06", argv, level="proof")
    res = world.run_functions(ck, MODS, FUNCS, timeout=20 if ck.tier == "quick" else 60, hooks_mod="contracts.parser")
    from vlib.modelreplay import make_replayer
    world.report(ck, res, select=lambda n: any(k in n for k in KEEP), replayer=make_replayer(ck, MODS))
    # "the connection is closed, nothing behind the refused message is served": received() parses only while no close decision is visible
    # under requests_lock (the channel-side half of the statement; the decision itself is C11's subject)
    from props import chanworld
    resc = chanworld.run(ck, [("channel.HTTPChannel.received", "IO")])
    world.report(ck, resc, select=lambda n: "C11-no-close-decision-while-parsing" in n or "received@IO/coverage" in n or "received@IO/raises" in n)
    # termination of the gates themselves: a pattern of the form (X+)* or (X*)* -- an unbounded repetition whose whole body (or a whole
    # alternative of it) is again an unbounded repetition -- makes re backtrack exponentially on a non-matching input (the parser "hangs"
    # instead of refusing).  Structural, sufficient condition only; the general question (is every gate linear) is NOT decided.
    import re as _re
    try:
        from re import _parser as _sp, _constants as _sc
    except ImportError:
        import sre_parse as _sp, sre_constants as _sc

    def unbounded(item):
        op, av = item
        return op in (_sc.MAX_REPEAT, _sc.MIN_REPEAT) and av[1] == _sc.MAXREPEAT

    def whole_body_repeats(seq):
        items = list(seq)
        if len(items) != 1:
            return False
        op, av = items[0]
        if unbounded(items[0]):
            return True
        if op == _sc.SUBPATTERN:
            return whole_body_repeats(av[3])
        if op == _sc.BRANCH:
            return any(whole_body_repeats(alt) for alt in av[1])
        return False

    def nested(seq):
        for op, av in seq:
            if op in (_sc.MAX_REPEAT, _sc.MIN_REPEAT):
                if av[1] == _sc.MAXREPEAT and whole_body_repeats(av[2]):
                    return True
                if nested(av[2]):
                    return True
            elif op == _sc.SUBPATTERN:
                if nested(av[3]):
                    return True
            elif op == _sc.BRANCH:
                if any(nested(alt) for alt in av[1]):
                    return True
        return False
    bad = []
    for modname in ("rfc7230", "parser", "utilities"):
        mod = ck.repo.module(modname)
        for nm, v in sorted(vars(mod).items()):
            if hasattr(v, "pattern") and hasattr(v, "groupindex"):
                try:
                    if nested(_sp.parse(v.pattern)):
                        bad.append("%s.%s" % (modname, nm))
                except Exception:
                    pass
    if bad:
        w = bad[0]
        ck.fail("rfc7230/structural:no-repetition-of-a-repetition-in-the-gates", "pattern:" + w,
                "compiled pattern %s repeats a sub-pattern that is itself an unbounded repetition: exponential backtracking on a non-matching token (the parser hangs instead of refusing)" % ", ".join(bad),
                replay={"patterns": bad, "label": "structural"}, reproduced=False)
        ck.ob("rfc7230/structural:no-repetition-of-a-repetition-in-the-gates", "violated", backend="ast", kind="structural")
    else:
        ck.ob("rfc7230/structural:no-repetition-of-a-repetition-in-the-gates", "discharged", backend="ast", kind="structural",
              clause="no compiled pattern of rfc7230 / parser / utilities has an unbounded repetition whose whole body (or a whole alternative) is an unbounded repetition")
    facts = []
    for r in res:
        facts.extend(r.get("regex_facts", []))
    ck.extra["regex_facts_decided_by_relang"] = [dict(t) for t in {tuple(sorted(f.items())) for f in facts}]
    if ck.tier == "thorough":
        from vlib.runtime import run_monitor
        run_monitor(ck, ("receiver.", "parser."))
    ck.trusted.extend([
        "pyvc VC generator and its Python-subset semantics (DESIGN.md section 3)",
        "SMT solvers cvc5 1.0.3 / z3 5.1.0 (an unsat answer is believed)",
        "builtin contracts of vlib/builtins_model.py (str/bytes/list/dict/int/urlsplit), regex gates as predicates whose facts are decided by relang",
        "callee contracts are used at call sites; each callee body is verified against the same contract in this run",
    ])
    ck.assumptions.extend([
        "integers are mathematical (exact for Python); strings are sequences of code points; MemoryError/RecursionError ignored",
        "adj.* limits are arbitrary integers (every configuration)",
        "composition of the per-function clauses into the end-to-end statement (response bytes, closure) is covered by C01/C03/C11 clauses, not proved as one theorem",
    ])
    return ck.finish("Per-function deductive verification of the parsing path: for every input byte string, every object state satisfying the class invariants and "
                     "every value of the limits, no exception other than the declared parsing errors escapes, results stay within [0, len(data)], progress/variants "
                     "give termination, and the header/body limits force a completed request carrying the 431/413 error.")


if __name__ == "__main__":
    from vlib.report import run_check
    run_check(main)
