"""C06 -- oversize and malformed input is refused totally: error response, close, no crash."""
from vlib.report import Check
from vlib import world

MODS = ["adj", "buffers_abs", "receiver", "parser"]
FUNCS = ["receiver.FixedStreamReceiver.received", "receiver.ChunkedReceiver.received", "parser.HTTPRequestParser.received",
         "parser.HTTPRequestParser.parse_header", "parser.get_header_lines", "parser.split_uri"]

KEEP = ("raises:", "raises-only", "coverage:", "frame:", "result-range", "progress", "variant", "limit", "completed-returns-0", "error-completes", "inv:", "inv-", "/pre:",
        "not-completed-consumes-all", "body-count", "list-elem-fact")


def main(argv=None):
    ck = Check("C06", argv, level="proof")
    res = world.run_functions(ck, MODS, FUNCS, timeout=20 if ck.tier == "quick" else 60, hooks_mod="contracts.parser")
    from vlib.modelreplay import make_replayer
    world.report(ck, res, select=lambda n: any(k in n for k in KEEP), replayer=make_replayer(ck, MODS))
    # "the connection is closed, nothing behind the refused message is served": received() parses only while no close decision is visible
    # under requests_lock (the channel-side half of the statement; the decision itself is C11's subject)
    from props import chanworld
    resc = chanworld.run(ck, [("channel.HTTPChannel.received", "IO")])
    world.report(ck, resc, select=lambda n: "C11-no-close-decision-while-parsing" in n or "received@IO/coverage" in n or "received@IO/raises" in n)
    facts = []
    for r in res:
        facts.extend(r.get("regex_facts", []))
    ck.extra["regex_facts_decided_by_relang"] = [dict(t) for t in {tuple(sorted(f.items())) for f in facts}]
    if ck.tier == "thorough":
        from vlib.runtime import run_monitor
        run_monitor(ck, ("receiver.", "parser."))
    ck.trusted.extend([
        "pyvc VC generator and its Python-subset semantics (DESIGN.md section 3)",
        "SMT solvers cvc5 1.0.3 / z3 5.1.0 (an unsat answer is believed)",
        "builtin contracts of vlib/builtins_model.py (str/bytes/list/dict/int/urlsplit), regex gates as predicates whose facts are decided by relang",
        "callee contracts are used at call sites; each callee body is verified against the same contract in this run",
    ])
    ck.assumptions.extend([
        "integers are mathematical (exact for Python); strings are sequences of code points; MemoryError/RecursionError ignored",
        "adj.* limits are arbitrary integers (every configuration)",
        "composition of the per-function clauses into the end-to-end statement (response bytes, closure) is covered by C01/C03/C11 clauses, not proved as one theorem",
    ])
    return ck.finish("Per-function deductive verification of the parsing path: for every input byte string, every object state satisfying the class invariants and "
                     "every value of the limits, no exception other than the declared parsing errors escapes, results stay within [0, len(data)], progress/variants "
                     "give termination, and the header/body limits force a completed request carrying the 431/413 error.")


if __name__ == "__main__":
    from vlib.report import run_check
    run_check(main)
