"""C15 -- untrusted peers cannot influence connection metadata."""
from vlib.report import Check
from vlib import world

FUNCS = ["proxy_headers.proxy_headers_middleware.<translate_proxy_headers>"]


def main(argv=None):
    ck = Check("C15", argv, level="proof")
    res = world.run_functions(ck, ["proxy"], FUNCS, timeout=20 if ck.tier == "quick" else 60, hooks_mod="contracts.proxy")
    world.report(ck, res)
    # installation condition: the first segment of the real BaseWSGIServer.__init__ (up to `if map is None:`) against a cut assertion
    res2 = world.run_functions(ck, ["c15server"], ["server.BaseWSGIServer.__init__"], timeout=20)
    world.report(ck, res2)
    import ast
    fn = ck.repo.find("server.BaseWSGIServer.__init__")
    stores = [n.lineno for n in ast.walk(fn) if isinstance(n, ast.Name) and n.id == "application" and isinstance(n.ctx, ast.Store)] if fn else []
    cut_line = next((st.lineno for st in fn.body if isinstance(st, ast.If) and ast.unparse(st.test) == "map is None"), None) if fn else None
    uses = [n for n in ast.walk(fn) if isinstance(n, ast.Assign) and ast.unparse(n.targets[0]) == "self.application" and ast.unparse(n.value) == "application"] if fn else []
    ok = cut_line is not None and all(l < cut_line for l in stores) and len(uses) == 1
    ck.ob("server.BaseWSGIServer.__init__/frame:application-not-rebound-after-the-installation-point", "discharged" if ok else "undecided", backend="ast",
          clause="after `if map is None:` the local `application` is not assigned again and is what is stored in self.application",
          detail=None if ok else {"reason": "the tail of the constructor re-binds `application` or does not store it; the segment contract does not cover that"})
    # the switch that turns the clearing on must mean what the documentation says in every accepted spelling (finite table on the real Adjustments)
    rep = ck.native("boolean_spellings", {"repo_root": ck.repo.root}, timeout=600, module="C20")
    bad = [f for f in rep.get("failures", []) if f.get("option") in ("clear_untrusted_proxy_headers", "log_untrusted_proxy_headers")]
    ck.finite.append({"label": "exhaustive-finite", "table": "documented switches incl. clear_untrusted_proxy_headers: 21 keyword spellings and --x / --no-x give the documented boolean",
                      "cases": rep.get("total"), "failures": bad})
    if bad:
        ck.fail("adjustments/finite:boolean_spellings", "case:" + repr(bad[0])[:120], "finite table boolean_spellings: %s" % (bad[0],), replay={"case": bad[0], "label": "exhaustive-finite"}, reproduced=True)
    ck.trusted.extend(["environ is an arbitrary str->str mapping containing REMOTE_ADDR; the application is demonic (its received environ is snapshotted)",
                       "frame obligation: every write to environ on this path is a pop of one of the six HTTP_<proxy header> keys, so keys other than those checked are untouched too",
                       "pyvc, cvc5/z3"])
    return ck.finish("For every environ, every peer address different from trusted_proxy (or no trusted proxy), every setting of the other options: the application is called exactly once, "
                     "parse_proxy_headers is never called, the seven metadata keys reach the application unchanged, and each of the six proxy-header keys is absent (clear_untrusted) or unchanged; "
                     "the only writes to environ are removals of those six keys, which gives equality with the run in which the headers were deleted beforehand.")


if __name__ == "__main__":
    from vlib.report import run_check
    run_check(main)
