"""C15 -- untrusted peers cannot influence connection metadata."""
from vlib.report import Check
from vlib import world

FUNCS = ["proxy_headers.proxy_headers_middleware.<translate_proxy_headers>"]


def main(argv=None):
    ck = Check("C15", argv, level="proof")
    res = world.run_functions(ck, ["proxy"], FUNCS, timeout=20 if ck.tier == "quick" else 60, hooks_mod="contracts.proxy")
    world.report(ck, res)
    # installation condition (BaseWSGIServer.__init__): structural obligation read from the AST
    import ast
    fn = ck.repo.find("server.BaseWSGIServer.__init__")
    ck.under_contract("server.BaseWSGIServer.__init__", role="installation condition of the middleware (structural)")
    ok = False
    if fn is not None:
        for n in ast.walk(fn):
            if isinstance(n, ast.If) and "proxy_headers_middleware" in ast.unparse(n) :
                cond = ast.unparse(n.test)
                call = [c for c in ast.walk(n) if isinstance(c, ast.Call) and ast.unparse(c.func) == "proxy_headers_middleware"]
                kws = {k.arg: ast.unparse(k.value) for c in call for k in c.keywords}
                ok = (cond == "adj.trusted_proxy or adj.clear_untrusted_proxy_headers" and kws.get("trusted_proxy") == "adj.trusted_proxy"
                      and kws.get("clear_untrusted") == "adj.clear_untrusted_proxy_headers" and kws.get("trusted_proxy_headers") == "adj.trusted_proxy_headers")
    ck.ob("server.BaseWSGIServer.__init__/structural:middleware-installed-with-the-configured-trust-settings", "discharged" if ok else "undecided", backend="ast",
          clause="application is wrapped iff trusted_proxy or clear_untrusted_proxy_headers, with the adjustments passed through unchanged",
          detail=None if ok else {"reason": "installation site not recognised"})
    ck.trusted.extend(["environ is an arbitrary str->str mapping containing REMOTE_ADDR; the application is demonic (its received environ is snapshotted)",
                       "frame obligation: every write to environ on this path is a pop of one of the six HTTP_<proxy header> keys, so keys other than those checked are untouched too",
                       "pyvc, cvc5/z3"])
    return ck.finish("For every environ, every peer address different from trusted_proxy (or no trusted proxy), every setting of the other options: the application is called exactly once, "
                     "parse_proxy_headers is never called, the seven metadata keys reach the application unchanged, and each of the six proxy-header keys is absent (clear_untrusted) or unchanged; "
                     "the only writes to environ are removals of those six keys, which gives equality with the run in which the headers were deleted beforehand.")


if __name__ == "__main__":
    from vlib.report import run_check
    run_check(main)
