"""C01 -- request framing is unambiguous and agrees with RFC 9112."""
from vlib.report import Check, b2s
from vlib import world
from props import C10, taskworld, chanworld

MODS = ["adj", "buffers_abs", "receiver", "parser"]
FUNCS = ["receiver.FixedStreamReceiver.received", "receiver.ChunkedReceiver.received", "parser.HTTPRequestParser.received",
         "parser.HTTPRequestParser.parse_header", "parser.get_header_lines"]
KEEP = ("C01-", "head-delimitation", "head-incomplete", "head-progress", "ensures:consumed", "ensures:appended", "ensures:remain", "ensures:completed", "view-extends",
        "result-range", "chunked-receiver", "fixed-receiver", "cl-nonneg", "lines-have-no-cr-lf", "inv:", "loop0/inv", "coverage:", "frame:", "raises-only", "not-completed-consumes-all",
        "completed-returns-0", "list-elem-fact")


def main(argv=None):
    ck = Check("C01", argv, level="other")
    # 1. framing-critical acceptance sites: exact language equality with the RFC grammars (relang, all lengths)
    C10.run(ck, framing_only=True, finish=False)
    # 2. parser / receivers: delimitation, decision table, close-after-message
    res = world.run_functions(ck, MODS, FUNCS, timeout=20 if ck.tier == "quick" else 60, hooks_mod="contracts.parser")
    from vlib.modelreplay import make_replayer
    world.report(ck, res, select=lambda n: any(k in n for k in KEEP), replayer=make_replayer(ck, MODS))
    # 3. the close decision reaches the response (task) and the leftover loop (channel)
    res2 = taskworld.run(ck, ["task.Task.build_response_header"])
    world.report(ck, res2, select=lambda n: "C01-" in n or "must-close" in n or "coverage" in n)
    res3 = chanworld.run(ck, [("channel.HTTPChannel.received", "IO")])
    world.report(ck, res3, select=lambda n: "received@IO/loop0" in n or "received@IO/coverage" in n or "received@IO/raises" in n)
    # 4. trailer lines: the statement requires a malformed trailer line to be refused
    rep = ck.native("trailer", {"trailers": ["X-Ok: 1", "foo", "a b: c", "bad\x00name: v", "X-A: 1\nX-B: 2", "X-A: 1\rX-B: 2", "X-A: 1\n", "\nX-A: 1"]})
    accepted_bad = [r["trailer"] for r in rep.get("results", []) if r["accepted"] and r["trailer"] != "X-Ok: 1"]
    name = "receiver.ChunkedReceiver.received/structural:trailer-lines-pass-the-header-line-gate"
    if "results" not in rep:
        ck.ob(name, "undecided", backend="native", detail={"reason": str(rep)[:300]})
    elif accepted_bad:
        ck.fail(name, "trailer:" + accepted_bad[0], "trailer line %r is accepted: ChunkedReceiver never applies the header-line gate to the trailer section" % accepted_bad[0],
                replay={"stream": "POST / HTTP/1.1\\r\\nHost: x\\r\\nTransfer-Encoding: chunked\\r\\n\\r\\n1\\r\\na\\r\\n0\\r\\n" + accepted_bad[0] + "\\r\\n\\r\\n", "native": rep}, reproduced=True)
        st = "known-finding" if any(e["key"] == "trailer:" + accepted_bad[0] and e["status"] == "known" for e in ck.known_for(name)) else "violated"
        ck.ob(name, st, backend="native+ast", clause="every trailer line satisfies token ':' OWS field-value OWS or the message is refused")
    else:
        ck.ob(name, "discharged", backend="native", clause="malformed trailer lines are refused")
    ck.trusted.extend(["the end-to-end statement (sequence of delivered requests == what an RFC 9112 parser extracts) is the composition of the per-function clauses; it is argued, not proved as one theorem",
                       "Transfer-Encoding list semantics (exactly one, final 'chunked') is covered by parse_header's raises/decision clauses only up to the builtin split/strip/lower model",
                       "pyvc, relang, cvc5/z3"])
    return ck.finish("Framing sites (chunk size, chunk extension, header line, bare CR/LF, Content-Length) proved equal to the RFC grammars on automata; head delimitation (first CRLFCRLF, consumed bytes), "
                     "Content-Length and chunked body delimitation clauses, parse_header's decision table (chunked only on 1.1 with a receiver, Content-Length next to chunked popped and closing, "
                     "Transfer-Encoding on non-1.1 closing, gated Content-Length value) and the hand-over of the close decision to the response are verified per function for all inputs. "
                     "Recorded: trailer lines are not validated. Composition across functions is argued: level other.")


if __name__ == "__main__":
    from vlib.report import run_check
    run_check(main)
