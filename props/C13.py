from props.chanprops import main_for


def main(argv=None):
    return main_for("C13", argv)
