"""C08 -- applications cannot split or inject into the response head."""
from vlib.report import Check
from vlib import world
from props import taskworld

T = "task.Task"
FUNCS = ["task.WSGITask.execute.<start_response>", T + ".build_response_header", T + ".set_close_on_finish", T + ".has_body", T + ".write",
         T + ".remove_content_length_header", "task.ErrorTask.execute",
         # these keep the class invariant "stored status / headers are CR/LF-free" (they are C03/C09's subject otherwise)
         T + ".finish", T + ".service", "task.WSGITask.execute"]
PATS = ("C08", "start_response", "list-elem-fact", "establishes", "build_response_header/cut", "build_response_header/loop", "build_response_header/inv",
        "build_response_header/raises", "build_response_header/frame", "coverage:", "set_close_on_finish", "remove_content_length_header", "nothing-sent-if-head-cannot-be-built",
        "write/raises", "write/inv:C08", "ErrorTask.execute/inv:C08", "ErrorTask.execute/raises",
        "inv:C08", "inv-entry:C08", "inv-preserved:C08", "pre:operator-ident-has-no-cr-lf")


def main(argv=None):
    ck = Check("C08", argv, level="proof")
    res = taskworld.run(ck, FUNCS)
    world.report(ck, res, select=lambda n: any(p in n for p in PATS))
    # every application header line reaches the head as often as it was given -- no field is dropped, merged or duplicated (bounded: a fixed table)
    reph = ck.native("heads", {}, timeout=300)
    ck.bounded.append({"label": "bounded", "what": "the head written by the real Task.write/build_response_header carries each application header line exactly as often as given "
                       "(repeated Set-Cookie, fields differing only in letter case, the application's own Date/Server), plus only the server's own fields",
                       "bound": "7 header lists x HTTP/1.0, 1.1 (replay/C08_replay.py)", "evaluations": reph.get("total", 0), "failures": reph.get("failures", reph)})
    for f in (reph.get("failures") or [])[:2]:
        ck.fail("task.Task.build_response_header/bounded:heads", "case:" + repr(f["headers"])[:100], "bounded stand-in: header lines lost or added: %s" % (f,),
                replay={"case": f, "label": "bounded"}, reproduced=True)
    ck.trusted.extend([
        "element-fact tracking for lists (vlib): a fact on all elements is installed only by a loop proved to establish it, and re-proved at every append/extend/store",
        "builtin string model: case maps (capitalize/lower/upper) neither create nor remove CR/LF and keep the length; every character of sep.join(xs) belongs to sep or to some element; str(int) is a decimal numeral",
        "utilities.build_http_date returns a CR/LF-free latin-1 string (assumed contract)",
        "operator precondition: adj.ident is CR/LF-free",
        "input typing: header entries are 2-tuples as PEP 3333 requires (entries passed as mutable lists and mutated after the call are outside the property's typing)",
        "pyvc, cvc5/z3",
    ])
    return ck.finish("start_response is verified for every status object and every header list (non-str items, CR/LF at any position, hop-by-hop names, both the first call and the exc_info re-call): "
                     "on normal return the stored list contains only CR/LF-free (str, str) pairs without hop-by-hop names, it is never the application's own list object, and on every exit the "
                     "stored list keeps that invariant. build_response_header is verified (with cut points) to emit only lines free of CR and LF (arbitrary line of the CRLF-joined head), to keep "
                     "the header invariant when adding the server's own fields, and to raise UnicodeEncodeError (the 500 path) before anything is written.")


if __name__ == "__main__":
    from vlib.report import run_check
    run_check(main)
