from props.chanprops import main_for


def main(argv=None):
    return main_for("C12", argv)
