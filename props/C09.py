"""C09 -- application failures are contained and the iterable is always closed."""
from vlib.report import Check
from vlib import world
from props import taskworld, chanworld

PATS = ("C09", "WSGITask.execute/raises", "WSGITask.execute/coverage", "WSGITask.execute/cut", "not-closed-during-iteration", "not-handed-over", "Task.service/raises",
        "Task.service/ensures-exc", "Task.service/coverage")


def main(argv=None):
    ck = Check("C09", argv, level="proof")
    res = taskworld.run(ck, ["task.WSGITask.execute", "task.Task.service"])
    world.report(ck, res, select=lambda n: any(p in n for p in PATS))
    # handle_close: a worker about to hand a file wrapper to the channel must see the teardown (C09-disconnected-before-the-lock-is-released)
    # _flush_some: a drained buffer taken off the output queue (possibly the application's file wrapper) is closed by the flusher, in both roles
    res2 = chanworld.run(ck, [("channel.HTTPChannel.service", "W"), ("channel.HTTPChannel.handle_close", "IO"),
                              ("channel.HTTPChannel._flush_some", "IOL"), ("channel.HTTPChannel._flush_some", "W"),
                              ("channel.HTTPChannel.write_soon", "W")])
    world.report(ck, res2, select=lambda n: any(p in n for p in ("C09", "W5-", "raises:BaseException", "raises:Exception", "raises:ClientDisconnected", "coverage",
                                                                 "R6:no-dispatch-when-disconnected")))
    res3 = world.run_functions(ck, ["dispatcher"], ["task.ThreadedTaskDispatcher.handler_thread"], timeout=20, hooks_mod="contracts.dispatcher")
    world.report(ck, res3, select=lambda n: "raises" in n or "coverage" in n)
    ck.trusted.extend([
        "demonic application / iterable model: the application call, start_response, each next(), the write callable and close() may each raise any BaseException; write_soon may raise ClientDisconnected at every call",
        "ghost counter `closes` (incremented by app_iter.close(), also when close() itself raises) and flag `handed_over` (set when a file wrapper is accepted by channel.write_soon)",
        "channel.service@W uses Task.service by contract; handler_thread uses task.service demonically",
        "pyvc, cvc5/z3",
    ])
    ck.assumptions.extend(["log contents (tracebacks) are not modelled; the 500 body is built from server strings unless expose_tracebacks",
                           "closing a handed-over file wrapper by the channel (_flush_some / handle_close) is covered by the channel contracts (C04/C13), not here"])
    return ck.finish("For every behaviour of the demonic application: WSGITask.execute closes the iterable exactly once on every normal and exceptional exit unless a file wrapper was handed to the channel "
                     "(then never), never twice; only the declared exception classes escape; Task.service marks the connection for closing on socket errors; HTTPChannel.service either pops the request "
                     "or decides to close on every exit; worker threads survive any BaseException.")


if __name__ == "__main__":
    from vlib.report import run_check
    run_check(main)
