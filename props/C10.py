"""C10 -- framing-critical tokens are accepted exactly per grammar, at any length.

For every acceptance site the refused-token language of the REAL code fragment is
computed by sitelang (regular pre-images, exact for all lengths) and compared with
the RFC grammar by DFA product; a difference yields a shortest distinguishing token
which is replayed through the real enclosing function.
"""
import ast
import re
import time

from spec import rfc
from vlib import relang as rl
from vlib.relang import Unsupported
from vlib.report import Check, b2s
from vlib.sitelang import SiteEval, Path, locate_fragment, BYTES_WS

TRUSTED = [
    "relang/sitelang (this repository's own automata code; guarded by native replay of every witness and by the bounded site-model validation)",
    "python re semantics as encoded in vlib/relang.py header (anchors, match/fullmatch/search); cross-checked by bounded site-model validation against the real functions",
    "spec/rfc.py is my reading of the ABNF quoted in the property statement (target = 1*(%x21-7E / %x80-FF))",
    "int(x, 10|16) returns the positional value on its literal syntax (CPython builtin)",
]


def collect_masks(repo, extra_regexes):
    masks = set()
    for modname, names in (("rfc7230", None), ("parser", None)):
        mod = repo.module(modname)
        for n, v in vars(mod).items():
            if hasattr(v, "pattern") and hasattr(v, "groupindex"):
                try:
                    rl.masks_in(rl.PyPattern(v).core, masks)
                except Unsupported:
                    pass
    for r in extra_regexes:
        rl.masks_in(r, masks)
    for b in (b"\r", b"\n", b" ", b"\t", b";", b":", b"_", b"-", b"+", b"\x0b", b"\x0c", b"\x00", b"\x7f", b"0", b"x", b"X", b"=", b'"', b"\\", b"/", b".", b"H", b"T", b"P"):
        masks.add(rl.mask_of(b))
    masks.add(BYTES_WS)
    masks.add(rl.mask_range(0x61, 0x7A))
    masks.add(rl.mask_range(0x00, 0x1F))
    masks.add(rl.mask_range(0x80, 0xFF))
    return masks


def domain_from_slice(fn, raw_stmt, alpha):
    """raw = X[:Y] with Y = X.find(<const>)  ->  tokens not containing <const>"""
    sub = None
    for n in ast.walk(raw_stmt.value):
        if isinstance(n, ast.Subscript) and isinstance(n.slice, ast.Slice):
            sub = n
    if sub is None or sub.slice.lower is not None or not isinstance(sub.slice.upper, ast.Name) or not isinstance(sub.value, ast.Name):
        raise Unsupported("raw token is not X[:Y]")
    X, Y = sub.value.id, sub.slice.upper.id
    sep = None
    for n in ast.walk(fn):
        if isinstance(n, ast.Assign) and len(n.targets) == 1 and isinstance(n.targets[0], ast.Name) and n.targets[0].id == Y and n.lineno <= raw_stmt.lineno:
            v = n.value
            if (isinstance(v, ast.Call) and isinstance(v.func, ast.Attribute) and v.func.attr == "find" and isinstance(v.func.value, ast.Name)
                    and v.func.value.id == X and len(v.args) == 1 and isinstance(v.args[0], ast.Constant) and isinstance(v.args[0].value, bytes)):
                sep = v.args[0].value
            else:
                sep = None
    if sep is None:
        raise Unsupported("slice bound %s is not %s.find(<const>)" % (Y, X))
    return rl.not_containing(alpha, sep), sub, "token = %s[:%s.find(%r)]: contains no %r" % (X, X, sep, sep)


def domain_from_split(fn, loop, alpha):
    it = loop.iter
    if not isinstance(it, ast.Name):
        raise Unsupported("loop iterable")
    sep = None
    for n in ast.walk(fn):
        if isinstance(n, ast.Assign) and len(n.targets) == 1 and isinstance(n.targets[0], ast.Name) and n.targets[0].id == it.id and n.lineno <= loop.lineno:
            v = n.value
            if (isinstance(v, ast.Call) and isinstance(v.func, ast.Attribute) and v.func.attr == "split" and len(v.args) == 1
                    and isinstance(v.args[0], ast.Constant) and isinstance(v.args[0].value, bytes)):
                sep = v.args[0].value
            else:
                sep = None
    if sep is None:
        raise Unsupported("loop iterable is not X.split(<const>)")
    return rl.not_containing(alpha, sep), "token is an element of .split(%r): contains no %r" % (sep, sep)


def factors(d):
    """language of all factors (substrings) of words of d"""
    # co-reachable states
    n = d.n
    co = set(q for q in range(n) if d.acc[q])
    changed = True
    while changed:
        changed = False
        for q in range(n):
            if q not in co and any(t in co for t in d.tr[q]):
                co.add(q)
                changed = True
    live = [q for q in range(n) if q in co]   # minimized DFA: all states reachable
    nfa = rl.NFA(d.alpha)
    s, f = nfa.new(), nfa.new()
    base = len(nfa.eps)
    for _ in range(n):
        nfa.new()
    for q in live:
        nfa.eps[s].add(base + q)
        nfa.eps[base + q].add(f)
        for c in range(d.alpha.n):
            t = d.tr[q][c]
            if t in co:
                nfa.add(base + q, c, base + t)
    # determinize via the generic path: wrap as regex-less NFA
    start = nfa.closure([s])
    index = {start: 0}
    order = [start]
    tr = []
    i = 0
    while i < len(order):
        S = order[i]
        row = []
        for c in range(d.alpha.n):
            tgt = set()
            for q in S:
                tgt |= nfa.tr[q].get(c, set())
            T = nfa.closure(tgt)
            if T not in index:
                index[T] = len(order)
                order.append(T)
            row.append(index[T])
        tr.append(row)
        i += 1
    return rl.DFA(d.alpha, tr, [f in S for S in order]).minimize()


def eval_site(ck, alpha, site, domain_override=None):
    """returns dict(refuse=DFA, domain=DFA, info=..., ev=SiteEval) or raises Unsupported"""
    repo = ck.repo
    fn = repo.find(site["func"])
    if fn is None:
        raise Unsupported("function %s not found" % site["func"])
    loc = locate_fragment(fn, site["raw"], site["mode"], site.get("raw_rhs"))
    if loc is None:
        raise Unsupported("raw token variable %r not found in %s" % (site["raw"], site["func"]))
    raw_stmt, frag = loc
    ev = SiteEval(repo, alpha, site["func"].split(".")[0], is_bytes=site.get("is_bytes", True))
    universe = ev.universe
    env = {}
    dominfo = ""
    extra_paths, domain_nonempty = [], None
    if site["mode"] == "loopvar":
        env[site["raw"]] = ("R",)
        if domain_override is not None:
            domain, dominfo = domain_override
        else:
            domain, dominfo = domain_from_split(fn, raw_stmt, alpha)
        stmts = frag
    else:
        if site["raw_expr"] == "slice":
            domain, sub, dominfo = domain_from_slice(fn, raw_stmt, alpha)
            # bind the slice sub-expression to R, then execute the assignment itself
            class Repl(ast.NodeTransformer):
                def visit_Subscript(self, node):
                    if node is sub:
                        return ast.copy_location(ast.Name(id="__RAW__", ctx=ast.Load()), node)
                    return self.generic_visit(node)
            import copy
            st2 = copy.deepcopy(raw_stmt)
            # identity of `sub` is lost by deepcopy: locate by position instead
            for n in ast.walk(st2):
                if isinstance(n, ast.Subscript) and (n.lineno, n.col_offset, n.end_col_offset) == (sub.lineno, sub.col_offset, sub.end_col_offset):
                    target = n
            class Repl2(ast.NodeTransformer):
                def visit_Subscript(self, node):
                    if node is target:
                        return ast.copy_location(ast.Name(id="__RAW__", ctx=ast.Load()), node)
                    return self.generic_visit(node)
            st2 = Repl2().visit(st2)
            env["__RAW__"] = ("R",)
            stmts = [st2] + frag[1:]
        else:
            domain, dominfo = domain_override
            env[site["raw"]] = ("R",)
            stmts = frag[1:]
            extra_paths, domain_nonempty = [], None
            val = getattr(raw_stmt, "value", None)
            if (isinstance(val, ast.BoolOp) and isinstance(val.op, ast.Or) and len(val.values) == 2 and isinstance(val.values[1], ast.Constant)
                    and isinstance(val.values[1].value, (str, bytes))):
                # raw = <lookup> or CONST : an empty (falsy) raw value is replaced by the constant before the fragment sees it
                k = val.values[1].value
                k = k if isinstance(k, bytes) else k.encode("latin-1")
                empty_tok = rl.dfa(alpha, rl.rlit(b""))
                env2 = dict(env)
                env2[site["raw"]] = ("const", val.values[1].value)
                extra_paths = [Path(domain & empty_tok, env2)]
                domain_nonempty = domain - empty_tok
            elif val is not None and not (isinstance(val, ast.Call)):
                raise Unsupported("raw token expression %s" % ast.unparse(val)[:60])
    p0 = Path(domain if domain_nonempty is None else domain_nonempty, env)
    paths = ev.run_block(stmts, [p0] + extra_paths)
    refuse = ev.refuse_language(paths, domain)
    accept_flag = ev.empty
    for p in paths:
        if any(f.startswith("accept:") for f in p.flags) and p.outcome != "REJECT" and "error-set" not in p.flags:
            accept_flag = accept_flag | p.lang
    return {"refuse": refuse, "domain": domain, "dominfo": dominfo, "ev": ev, "paths": len(paths),
            "converted": accept_flag & domain}


def known_classes(ck, alpha, obname):
    out = []
    for e in ck.known_for(obname):
        if e["status"] != "known":
            continue
        cre = re.compile(e["class_re"].encode("latin-1"))
        out.append((e, rl.dfa(alpha, rl.PyPattern(cre).language("fullmatch"))))
    return out


def compare(ck, alpha, obname, code_accept, spec_accept, domain, replay_routine, clause, secs, model_note, extra_payload=None):
    """code_accept / spec_accept: DFAs; compared inside domain."""
    t0 = time.time()
    diff = (code_accept ^ spec_accept) & domain
    status = "discharged"
    detail = {"domain": model_note, "code_states": code_accept.n, "spec_states": spec_accept.n}
    if not diff.is_empty():
        residual = diff
        for e, K in known_classes(ck, alpha, obname):
            hit = diff & K
            if not hit.is_empty():
                w = hit.shortest()
                rep = ck.native(replay_routine, dict(extra_payload or {}, tokens=[w.decode("latin-1")]))
                real_refused = (rep.get("refused") or [None])[0]
                code_refuses = not code_accept.accepts(w)
                ck.fail(obname, e["key"], e["what"], replay={
                    "witness": b2s(w), "class_re": e["class_re"], "code_model_refuses": code_refuses,
                    "real_code_refuses": real_refused, "grammar_accepts": spec_accept.accepts(w),
                    "native": rep, "clause": clause}, reproduced=(real_refused == code_refuses))
                status = "known-finding"
            residual = residual - K
        if not residual.is_empty():
            w = residual.shortest()
            rep = ck.native(replay_routine, dict(extra_payload or {}, tokens=[w.decode("latin-1")]))
            real_refused = (rep.get("refused") or [None])[0]
            code_refuses = not code_accept.accepts(w)
            spec_ok = spec_accept.accepts(w)
            reproduced = real_refused is not None and real_refused == code_refuses and (real_refused == spec_ok)
            what = "token %r is %s by the code but %s by the grammar" % (
                w, "refused" if code_refuses else "accepted", "accepted" if spec_ok else "not derivable")
            if real_refused is not None and real_refused != code_refuses:
                # the automaton model disagrees with the real function: model artefact, not a verdict
                ck.ob(obname, "undecided", backend="relang", secs=secs + time.time() - t0, clause=clause,
                      detail={"reason": "counter-model does not replay (model says refused=%s, real=%s) on %r" % (code_refuses, real_refused, w), "native": rep})
                return
            ck.fail(obname, "witness:" + w.hex(), what, replay={
                "witness": b2s(w), "code_model_refuses": code_refuses, "real_code_refuses": real_refused,
                "grammar_accepts": spec_ok, "native": rep, "clause": clause,
                "solver_output": "relang: symmetric difference non-empty; shortest word %r" % (w,)}, reproduced=reproduced)
            status = "violated"
    ck.ob(obname, status, backend="relang-dfa", secs=secs + time.time() - t0, clause=clause, detail=detail)


def conv_obligation(ck, alpha, res, obn, base, literal, routine, clause):
    """every (path language, argument term) pair recorded at an int() call: path language is inside
    the pre-image of int()'s literal syntax under the argument term"""
    t0 = time.time()
    ev = res["ev"]
    convs = [c for c in ev.conversions if c[3] == base]
    if not convs:
        ck.ob(obn, "undecided", backend="relang-dfa", secs=time.time() - t0, detail={"reason": "no path reaches int(.., %d): vacuous" % base})
        return
    lit = rl.dfa(alpha, literal)
    for lang, term, fname, b in convs:
        bad = (lang & res["domain"]) - ev.pre(term, lit)
        if not bad.is_empty():
            w = bad.shortest()
            rep = ck.native(routine, {"tokens": [w.decode("latin-1")]})
            raised = (rep.get("raised") or [None])[0]
            if not raised:
                # the real function handles the token without an escaping exception: the site model lost a gate (an opaque branch),
                # which is a limit of the model, not a verdict about the code
                ck.ob(obn, "undecided", backend="relang-dfa", secs=time.time() - t0, clause=clause,
                      detail={"reason": "model says token %r reaches int(x, %d) outside the literal syntax, the real code does not raise on it" % (w, base), "native": rep})
                return
            ck.fail(obn, "witness:" + w.hex(), "raw token %r reaches int(x, %d) with an argument outside int()'s literal syntax" % (w, base),
                    replay={"witness": b2s(w), "native": rep}, reproduced=True)
            ck.ob(obn, "violated", backend="relang-dfa", secs=time.time() - t0, clause=clause)
            return
    ck.ob(obn, "discharged", backend="relang-dfa", secs=time.time() - t0, clause=clause, detail={"call_sites_paths": len(convs)})


SITES = [
    dict(name="chunk-line", func="receiver.ChunkedReceiver.received", raw="line", mode="assign", raw_expr="slice",
         replay="chunk_line"),
    dict(name="request-line", func="parser.HTTPRequestParser.parse_header", raw="first_line", mode="assign", raw_expr="slice",
         replay="request_line"),
    dict(name="header-physical-line", func="parser.get_header_lines", raw="line", mode="loopvar", replay="physical_line"),
    dict(name="header-line", func="parser.HTTPRequestParser.parse_header", raw="line", mode="loopvar", replay="header_line"),
    dict(name="content-length", func="parser.HTTPRequestParser.parse_header", raw="cl", mode="assign", raw_expr="rhs",
         raw_rhs=".get(", replay="content_length"),
]


def normalisation_ops(fn, callee):
    """ops applied between `X = <slice>` and `self.<callee>(X)` in fn: list of (method, arg)"""
    call = None
    for n in ast.walk(fn):
        if (isinstance(n, ast.Call) and isinstance(n.func, ast.Attribute) and n.func.attr == callee and isinstance(n.func.value, ast.Name)
                and n.func.value.id == "self" and len(n.args) == 1 and isinstance(n.args[0], ast.Name) and not isinstance(n.args[0], ast.Constant)):
            call = n
            break
    if call is None:
        raise Unsupported("call self.%s(<name>) not found" % callee)
    var = call.args[0].id
    ops = []
    seen_slice = False
    for n in sorted([n for n in ast.walk(fn) if isinstance(n, ast.Assign) and n.lineno < call.lineno
                     and len(n.targets) == 1 and isinstance(n.targets[0], ast.Name) and n.targets[0].id == var], key=lambda n: n.lineno):
        v = n.value
        if isinstance(v, ast.Subscript):
            ops = []
            seen_slice = True
        elif (isinstance(v, ast.Call) and isinstance(v.func, ast.Attribute) and isinstance(v.func.value, ast.Name) and v.func.value.id == var
              and v.func.attr in ("strip", "lstrip", "rstrip")):
            if v.args:
                if not (isinstance(v.args[0], ast.Constant) and isinstance(v.args[0].value, bytes)):
                    raise Unsupported("strip with non-constant")
                ops.append((v.func.attr, v.args[0].value))
            else:
                ops.append((v.func.attr, None))
        else:
            raise Unsupported("unrecognised normalisation step: %s" % ast.unparse(n))
    if not seen_slice:
        raise Unsupported("head block is not a slice")
    return ops


def main(argv=None):
    ck = Check("C10", argv, level="proof")
    return run(ck)


def run(ck, framing_only=False, finish=True):
    """framing_only: leave out the request-line sites (C01 uses the framing-critical sites only)"""
    ck.trusted.extend(TRUSTED)
    repo = ck.repo
    spec_regexes = [rfc.CHUNK_LINE, rfc.HEADER_LINE, rfc.REQUEST_LINE, rfc.CONTENT_LENGTH, rfc.PY_INT10, rfc.PY_INT16]
    kre = []
    for e in ck.kf:
        if e.get("class_re"):
            kre.append(rl.PyPattern(re.compile(e["class_re"].encode("latin-1"))).core)
    alpha = rl.Alphabet(collect_masks(repo, spec_regexes + kre))
    ck.extra["alphabet_classes"] = alpha.n
    D = lambda r: rl.dfa(alpha, r)
    universe = D(rl.SIGMA_STAR)
    results = {}

    def run_site(site, domain_override=None):
        t0 = time.time()
        ck.under_contract(site["func"], role="acceptance site %s (raw token variable %r)" % (site["name"], site["raw"]))
        try:
            res = eval_site(ck, alpha, site, domain_override)
        except Unsupported as ex:
            results[site["name"]] = None
            return None, str(ex), time.time() - t0
        results[site["name"]] = res
        return res, None, time.time() - t0

    no_cr = rl.not_containing(alpha, b"\r")
    no_lf = rl.not_containing(alpha, b"\n")

    # ---- site A: chunk control line (size + extensions)
    siteA = SITES[0]
    res, err, secs = run_site(siteA)
    has_semi = D(rl.rcat(rl.SIGMA_STAR, rl.rlit(b";"), rl.SIGMA_STAR))
    if res is None:
        for nm in ("chunk-size", "chunk-ext"):
            ck.ob("receiver.ChunkedReceiver.received/site:%s/lang-eq" % nm, "undecided", backend="sitelang", secs=secs, detail={"reason": err})
    else:
        acc = res["domain"] - res["refuse"]
        spec = D(rfc.CHUNK_LINE)
        note = res["dominfo"] + "; ops: " + ", ".join(res["ev"].ops_seen) + "; patterns: " + repr(res["ev"].patterns_used)
        compare(ck, alpha, "receiver.ChunkedReceiver.received/site:chunk-size/lang-eq", acc, spec, res["domain"] - has_semi,
                "chunk_line", "control line without ';' is not refused  <=>  it is 1*HEXDIG", secs, note)
        compare(ck, alpha, "receiver.ChunkedReceiver.received/site:chunk-ext/lang-eq", acc, spec, res["domain"] & has_semi,
                "chunk_line", "control line with ';' is not refused  <=>  it is 1*HEXDIG *( ';' token [ '=' ( token / quoted-string ) ] )", 0.0, note)
        conv_obligation(ck, alpha, res, "receiver.ChunkedReceiver.received/conv:int16-defined", 16, rfc.PY_INT16, "chunk_line",
                        "every token reaching int(line, 16) is in int()'s base-16 literal syntax (no ValueError; power-of-two base has no digit limit)")

    if not framing_only:
        # ---- site B1: request line
        siteB = SITES[1]
        res, err, secs = run_site(siteB)
        obn = "parser.HTTPRequestParser.parse_header/site:request-line/lang-eq"
        if res is None:
            ck.ob(obn, "undecided", backend="sitelang", secs=secs, detail={"reason": err})
        else:
            acc = res["domain"] - res["refuse"]
            note = res["dominfo"] + "; ops: " + ", ".join(res["ev"].ops_seen) + "; patterns: " + repr(res["ev"].patterns_used)
            compare(ck, alpha, obn, acc, D(rfc.REQUEST_LINE), res["domain"], "request_line",
                    "first line is not refused  <=>  it is token SP target [ SP 'HTTP/' DIGIT '.' DIGIT ]", secs, note)

        # ---- site B2: bytes dropped in front of the request line
        t0 = time.time()
        obn = "parser.HTTPRequestParser.received/site:head-normalisation/removed-subset"
        ck.under_contract("parser.HTTPRequestParser.received", role="normalisation of the head block before parse_header")
        try:
            fnr = repo.find("parser.HTTPRequestParser.received")
            ops = normalisation_ops(fnr, "parse_header")
            removed_front = rl.EPS
            removed_back = rl.EPS
            for meth, arg in ops:
                mask = rl.mask_of(arg) if arg is not None else BYTES_WS
                if meth in ("strip", "lstrip"):
                    removed_front = rl.rcat(removed_front, rl.rstar(rl.rset(mask)))
                if meth in ("strip", "rstrip"):
                    removed_back = rl.rcat(removed_back, rl.rstar(rl.rset(mask)))
            code_front = D(removed_front)
            spec_front = D(rfc.LEADING_EMPTY_LINES)
            # the head block ends right before CRLFCRLF; nothing may be removed at its end
            code_back = D(removed_back)
            # compare as token languages: w is "accepted in front" iff it can be dropped
            compare(ck, alpha, obn, code_front, spec_front | (code_front & spec_front), universe, "leading_bytes",
                    "bytes silently dropped before the request line are empty lines (CRLF)* only", time.time() - t0,
                    "ops between s[:index] and parse_header(): %r" % (ops,))
            if not (code_back - D(rl.EPS)).is_empty():
                w = (code_back - D(rl.EPS)).shortest()
                ck.fail(obn, "witness-back:" + w.hex(), "bytes %r dropped at the end of the head block" % w, reproduced=False)
        except Unsupported as ex:
            ck.ob(obn, "undecided", backend="sitelang", secs=time.time() - t0, detail={"reason": str(ex)})

    # ---- site C0: physical header lines (bare CR / LF)
    siteC0 = SITES[2]
    res0, err, secs = run_site(siteC0)
    obn = "parser.get_header_lines/site:bare-cr-lf/lang-eq"
    domC = None
    if res0 is None:
        ck.ob(obn, "undecided", backend="sitelang", secs=secs, detail={"reason": err})
    else:
        acc0 = res0["domain"] - res0["refuse"]
        compare(ck, alpha, obn, acc0, no_cr & no_lf, res0["domain"], "physical_line",
                "a physical header line is refused  <=>  it contains a bare CR or LF", secs, res0["dominfo"])
        nonempty = acc0 - D(rl.EPS)
        domC = (D(rl.rplus(nonempty.as_regex())), "logical header line = concatenation of non-refused, non-empty physical lines (result of site bare-cr-lf)")

    # ---- site C: logical header line
    siteC = SITES[3]
    obn = "parser.HTTPRequestParser.parse_header/site:header-line/lang-eq"
    if domC is None:
        ck.ob(obn, "undecided", backend="sitelang", secs=0, detail={"reason": "domain unavailable (site bare-cr-lf undecided)"})
    else:
        res, err, secs = run_site(siteC, domC)
        if res is None:
            ck.ob(obn, "undecided", backend="sitelang", secs=secs, detail={"reason": err})
        else:
            acc = res["domain"] - res["refuse"]
            note = res["dominfo"] + "; patterns: " + repr(res["ev"].patterns_used)
            compare(ck, alpha, obn, acc, D(rfc.HEADER_LINE), res["domain"], "header_line",
                    "a header line is not refused  <=>  it is token ':' OWS field-value OWS", secs, note)

    # ---- site D: Content-Length
    siteD = SITES[4]
    obn = "parser.HTTPRequestParser.parse_header/site:content-length/lang-eq"
    if domC is None:
        ck.ob(obn, "undecided", backend="sitelang", secs=0, detail={"reason": "domain unavailable"})
    else:
        domD = (factors(domC[0]), "Content-Length value is a factor of a logical header line (or the default '0', or ', '-joined values)")
        res, err, secs = run_site(siteD, domD)
        if res is None:
            ck.ob(obn, "undecided", backend="sitelang", secs=secs, detail={"reason": err})
        else:
            acc = res["domain"] - res["refuse"]
            note = res["dominfo"] + "; ops: " + ", ".join(res["ev"].ops_seen) + "; patterns: " + repr(res["ev"].patterns_used)
            compare(ck, alpha, obn, acc, D(rfc.CONTENT_LENGTH), res["domain"], "content_length",
                    "a Content-Length value is not refused  <=>  it is 1*DIGIT", secs, note)
            conv_obligation(ck, alpha, res, "parser.HTTPRequestParser.parse_header/conv:int10-syntax", 10, rfc.PY_INT10, "content_length",
                            "every token reaching int(cl) is in int()'s decimal literal syntax (the 4300-digit limit is C06's obligation)")

    # ---- bounded site-model validation: real functions vs automata vs grammar
    k = 3 if ck.tier == "quick" else 4
    reps = sorted(set(alpha.rep))
    bounded_sites = [
        ("chunk_line", "chunk-line", D(rfc.CHUNK_LINE), "receiver.ChunkedReceiver.received/site:chunk-size/lang-eq", None),
        ("request_line", "request-line", D(rfc.REQUEST_LINE), "parser.HTTPRequestParser.parse_header/site:request-line/lang-eq", None),
        ("physical_line", "header-physical-line", no_cr & no_lf, "parser.get_header_lines/site:bare-cr-lf/lang-eq", None),
        ("header_line", "header-line", D(rfc.HEADER_LINE), "parser.HTTPRequestParser.parse_header/site:header-line/lang-eq", None),
    ]
    for routine, sname, specd, obname, _ in bounded_sites:
        if framing_only and sname == "request-line":
            continue
        t0 = time.time()
        rep = ck.native("enumerate", {"routine": routine, "alphabet": reps, "k": k}, timeout=1200)
        if "error" in rep:
            ck.bounded.append({"site": sname, "status": "error", "detail": rep})
            continue
        res = results.get(sname)
        refused = rep["refused_hex"]       # list of hex tokens the real function refused
        total = rep["total"]
        refused_set = set(bytes.fromhex(h) for h in refused)
        model_mismatch = None
        spec_mismatch = []
        kcls = known_classes(ck, alpha, obname)
        if sname == "chunk-line":
            kcls += known_classes(ck, alpha, "receiver.ChunkedReceiver.received/site:chunk-ext/lang-eq")
        import itertools
        dom = res["domain"] if res else None
        n_dom = 0
        for L in range(k + 1):
            for tup in itertools.product(reps, repeat=L):
                w = bytes(tup)
                if dom is not None and not dom.accepts(w):
                    continue
                if dom is None and (b"\r\n" in w):
                    continue
                n_dom += 1
                real_ref = w in refused_set
                if res is not None and model_mismatch is None and (res["refuse"].accepts(w) != real_ref):
                    model_mismatch = w
                if real_ref == specd.accepts(w):
                    if not any(K.accepts(w) for _, K in kcls):
                        spec_mismatch.append(w)
        entry = {"site": sname, "label": "bounded", "bound": "all byte strings of length <= %d over %d class representatives" % (k, len(reps)),
                 "evaluations": total, "in_domain": n_dom, "secs": round(time.time() - t0, 2),
                 "model_agrees_with_real_function": model_mismatch is None, "real_vs_grammar_mismatches_outside_known_classes": len(spec_mismatch)}
        ck.bounded.append(entry)
        if model_mismatch is not None:
            ck.ob(obname.replace("/lang-eq", "/model-validation"), "undecided", kind="bounded", backend="native-enumeration",
                  detail={"reason": "sitelang model disagrees with the real function on %r; deductive verdict for this site not trusted" % model_mismatch})
        if spec_mismatch and (res is None):
            w = min(spec_mismatch, key=lambda x: (len(x), x))
            ck.fail(obname, "witness:" + w.hex(), "bounded stand-in: real function and grammar disagree on %r" % w,
                    replay={"witness": b2s(w), "real_code_refuses": w in refused_set, "grammar_accepts": specd.accepts(w), "label": "bounded"}, reproduced=True)

    ck.assumptions.extend([
        "domain facts: the raw token of each site is the slice/element named in the evidence (read from the AST); tokens containing the separator are outside the site",
        "branches on values outside the vocabulary (dictionary look-ups, duplicate-header test) are explored both ways; a token counts as refused only if refused under every resolution",
        "Content-Length values are factors of logical header lines (field values are sub-strings of lines)",
    ])
    ck.samples.extend([o.as_json() for o in ck.obs[:4]])
    if not finish:
        return None
    return ck.finish(
        "Each acceptance site's refused-token language is computed from the AST of the real function with regular pre-images (exact for every length) "
        "and compared with the grammar automaton by product construction; witnesses are replayed through the real function. "
        "discharged counts only DFA-equality/inclusion obligations; bounded enumeration validates the automaton model against the real functions and is not counted.")


if __name__ == "__main__":
    from vlib.report import run_check
    run_check(main)
