"""C07 -- the WSGI environ is the exact PEP 3333 image of the request."""
from vlib.report import Check
from vlib import world

FUNCS = ["task.WSGITask.get_environment", "parser.HTTPRequestParser.parse_header", "parser.HTTPRequestParser.received",
         "receiver.FixedStreamReceiver.received", "receiver.ChunkedReceiver.received", "parser.split_uri"]
KEEP = ("C07", "get_environment", "ensures:appended", "ensures:remain", "ensures:consumed", "view-extends", "C01-no-transfer-encoding-left-on-1.1",
        "C01-length-is-the-gated-content-length", "chunked-content-length", "coverage:", "parse_header/frame", "parse_header/raises-only")


def main(argv=None):
    ck = Check("C07", argv, level="other")
    res = world.run_functions(ck, ["environ"], FUNCS, timeout=20 if ck.tier == "quick" else 60, hooks_mod="contracts.environ")
    world.report(ck, res, select=lambda n: any(k in n for k in KEEP))
    ck.trusted.extend(["dict model with symbolic keys: membership of a symbolic key agrees with every known entry; a write under a symbolic key can only hit an entry it can equal",
                       "hooks state the fold clauses at the store itself (names with '_' never stored, CGI key without '-', repeated fields appended after ', ')",
                       "urlsplit / unquote_to_bytes component semantics (request.path is taken as the percent-decoded path)", "pyvc, cvc5/z3"])
    ck.assumptions.extend(["the whole-dict statement (each field exactly once, arrival order across more than two repeats) is the fold of the per-store clauses: argued, not one theorem",
                           "SERVER_NAME / peer address values come from the OS; SERVER_PROTOCOL uses the task's version (1.0 fallback for other versions)"])
    return ck.finish("get_environment verified for every request object and url_prefix: REQUEST_METHOD, SERVER_PROTOCOL, QUERY_STRING, SCRIPT_NAME, PATH_INFO (prefix rule), url_scheme and REMOTE_ADDR clauses; "
                     "no key already defined is ever replaced (so no client field overrides a server variable and each field appears once); values are native strings. parse_header's stores: underscore names "
                     "dropped, CGI key form, repeated fields joined with ', ' in arrival order, Transfer-Encoding removed on 1.1; body length clauses of both receivers and the chunked CONTENT_LENGTH rewrite.")


if __name__ == "__main__":
    from vlib.report import run_check
    run_check(main)
