"""C07 -- the WSGI environ is the exact PEP 3333 image of the request."""
from vlib.report import Check
from vlib import world

FUNCS = ["task.WSGITask.get_environment", "parser.HTTPRequestParser.parse_header", "parser.HTTPRequestParser.received",
         "receiver.FixedStreamReceiver.received", "receiver.ChunkedReceiver.received", "parser.split_uri"]
KEEP = ("C07", "get_environment", "ensures:appended", "ensures:remain", "ensures:consumed", "view-extends", "C01-no-transfer-encoding-left-on-1.1",
        "C01-length-is-the-gated-content-length", "chunked-content-length", "coverage:", "parse_header/frame", "parse_header/raises-only")


def main(argv=None):
    ck = Check("C07", argv, level="other")
    res = world.run_functions(ck, ["environ"], FUNCS, timeout=20 if ck.tier == "quick" else 60, hooks_mod="contracts.environ")
    world.report(ck, res, select=lambda n: any(k in n for k in KEEP))
    # wsgi.input is the receiver's buffer: the body bytes must come out of it exactly as they went in, across the spill to a temporary file
    bufs = ["buffers.OverflowableBuffer.__len__", "buffers.OverflowableBuffer.append", "buffers.OverflowableBuffer.get", "buffers.OverflowableBuffer.getfile",
            "buffers.FileBasedBuffer.__init__", "buffers.FileBasedBuffer.append", "buffers.FileBasedBuffer.get", "buffers.FileBasedBuffer.getfile"]
    resb = world.run_functions(ck, ["buffers"], bufs, timeout=20)
    from vlib.modelreplay import make_replayer
    world.report(ck, resb, replayer=make_replayer(ck, ["buffers"]))
    k = 2 if ck.tier == "quick" else 3
    payload = {"k": k, "overflows": [0, 1, 8191, 8192, 8193, 20000], "seed": ck.seed, "random": 200 if ck.tier == "quick" else 2000}
    rep = ck.native("histories", payload, timeout=3000, module="C17")
    ck.bounded.append({"label": "bounded", "what": "real OverflowableBuffer over real BytesIO/TemporaryFile vs a bytearray queue (incl. getfile(): the stream handed to the application)",
                       "bound": "all operation histories of length <= %d over 17 operations x 6 overflow thresholds, plus %d seeded random histories" % (k, payload["random"]),
                       "evaluations": rep.get("total", 0), "failures": rep.get("failures", rep)})
    if rep.get("failures"):
        f = rep["failures"][0]
        ck.fail("buffers.OverflowableBuffer/bounded:fifo-histories", "history:" + repr(f)[:80], "bounded stand-in: real buffer deviates from a FIFO byte queue: %s" % f["problem"],
                replay={"history": f, "label": "bounded"}, reproduced=True)
    # request targets through the real parser + get_environment against an independent RFC 3986 split (bounded: a fixed table)
    rept = ck.native("targets", {}, timeout=300)
    ck.bounded.append({"label": "bounded", "what": "PATH_INFO / QUERY_STRING of 26 request targets (params, repeated '?', fragments, percent-escapes, '//' form, absolute form) "
                       "equal an independent RFC 3986 split with the path percent-decoded", "bound": "fixed table in replay/C07_replay.py",
                       "evaluations": rept.get("total", 0), "failures": rept.get("failures", rept)})
    for f in (rept.get("failures") or [])[:2]:
        ck.fail("task.WSGITask.get_environment/bounded:targets", "target:" + f["target"], "bounded stand-in: request target %r gives %s, expected %s" % (f["target"], f.get("got", f.get("problem")), f.get("expected")),
                replay={"case": f, "label": "bounded"}, reproduced=True)
    ck.trusted.extend(["dict model with symbolic keys: membership of a symbolic key agrees with every known entry; a write under a symbolic key can only hit an entry it can equal",
                       "hooks state the fold clauses at the store itself (names with '_' never stored, CGI key without '-', repeated fields appended after ', ')",
                       "urlsplit / unquote_to_bytes component semantics (request.path is taken as the percent-decoded path)", "pyvc, cvc5/z3"])
    ck.assumptions.extend(["the whole-dict statement (each field exactly once, arrival order across more than two repeats) is the fold of the per-store clauses: argued, not one theorem",
                           "SERVER_NAME / peer address values come from the OS; SERVER_PROTOCOL uses the task's version (1.0 fallback for other versions)"])
    return ck.finish("get_environment verified for every request object and url_prefix: REQUEST_METHOD, SERVER_PROTOCOL, QUERY_STRING, SCRIPT_NAME, PATH_INFO (prefix rule), url_scheme and REMOTE_ADDR clauses; "
                     "no key already defined is ever replaced (so no client field overrides a server variable and each field appears once); values are native strings. parse_header's stores: underscore names "
                     "dropped, CGI key form, repeated fields joined with ', ' in arrival order, Transfer-Encoding removed on 1.1; body length clauses of both receivers and the chunked CONTENT_LENGTH rewrite.")


if __name__ == "__main__":
    from vlib.report import run_check
    run_check(main)
