"""C14 -- worker pool: every task runs exactly once or is cancelled exactly once."""
from vlib.report import Check
from vlib import world

MODS = ["dispatcher"]
D = "task.ThreadedTaskDispatcher"
FUNCS = [D + ".add_task", D + ".handler_thread", D + ".set_thread_count", D + ".shutdown"]


def main(argv=None):
    ck = Check("C14", argv, level="proof")
    res = world.run_functions(ck, MODS, FUNCS, timeout=20 if ck.tier == "quick" else 60, hooks_mod="contracts.dispatcher")
    world.report(ck, res)
    ck.trusted.extend([
        "monitor rule (vlib/monitor.py): protected state is havocked subject to the invariant at every acquisition and after every wait(); sound for all interleavings given R1 (all writes under the lock, itself an obligation here) and the Lock/Condition contract (mutual exclusion, wait() atomically releases and re-acquires, no spurious wake-ups)",
        "ghost sequences g_submitted / g_taken and per-thread taken/serviced/cancelled are updated by operation (queue.append / popleft / task.service / task.cancel), not by line",
        "task.service() is demonic (may raise any BaseException); start_new_thread is assumed to start a thread that runs handler_thread(thread_no)",
        "pyvc, cvc5/z3",
    ])
    ck.assumptions.extend(["rely: a worker's own thread number stays in `threads` until that worker removes it (no other code discards it: frame obligation R1 on threads)",
                           "liveness clauses (resizing converges, shutdown stops every idle worker within the timeout) are NOT decided; only their safety cores (target accounting, notify under the lock) are",
                           "termination of the thread-number search loop in set_thread_count is not decided"])
    return ck.finish("Monitor-rule verification of ThreadedTaskDispatcher: invariant submitted == taken ++ queue (FIFO hand-over, nothing lost or duplicated) re-established at every release and wait for every "
                     "method; each worker services exactly the tasks it took, once, and never cancels; shutdown cancels exactly what it took and never services; set_thread_count establishes "
                     "|threads| - stop_count == count and workers/add_task preserve it; no exception escapes a worker.")


if __name__ == "__main__":
    from vlib.report import run_check
    run_check(main)
