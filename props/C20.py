"""C20 -- configuration is validated, and CLI and keyword forms are equivalent."""
import ast

from vlib.report import Check
from vlib import world


def main(argv=None):
    ck = Check("C20", argv, level="proof")
    res = world.run_functions(ck, ["adjustments"], ["adjustments.Adjustments.__init__"], timeout=20 if ck.tier == "quick" else 60)
    world.report(ck, res)
    # structural: unknown names are refused before anything is assigned
    fn = ck.repo.find("adjustments.Adjustments.__init__")
    ok = False
    if fn is not None:
        for n in ast.walk(fn):
            if isinstance(n, ast.For) and ast.unparse(n.iter) == "kw.items()":
                first = n.body[0]
                ok = (isinstance(first, ast.If) and ast.unparse(first.test) == "k not in self._param_map" and isinstance(first.body[0], ast.Raise)
                      and all("setattr" not in ast.unparse(s) for s in [first]) and any("setattr(self, k, self._param_map[k](v))" in ast.unparse(s) for s in n.body[1:]))
    ck.ob("adjustments.Adjustments.__init__/structural:unknown-name-refused-before-assignment", "discharged" if ok else "undecided", backend="ast",
          clause="the first statement of the kw loop raises ValueError for a name outside _param_map; setattr comes after it",
          detail=None if ok else {"reason": "loop shape not recognised"})
    # finite tables on the real code (exhaustive over finite spaces; reported separately from discharged obligations)
    for routine, what in (("exclusion", "all 32 subsets of {listen, host, port, sockets, unix_socket}: refused iff two exclusive groups"),
                          ("unknown_and_proxy", "unknown option / proxy cross-check cases"),
                          ("cli_equiv", "every adjustment: command-line spelling(s) vs keyword form give attribute-wise identical Adjustments"),
                          ("docs_table", "option names in docs/arguments.rst and runner.HELP vs Adjustments._params"),
                          ("sockets_table", "check_sockets over 1..2 sockets x 4 families x 2 types"),
                          ("host_port_applied", "host= / port= alone or together end up in the listen address, keyword and command-line form"),
                          ("list_spellings", "list-valued adjustments (listen, trusted_proxy_headers) as one string with blanks / tabs / newlines between and around the elements vs the list form, keyword and command-line"),
                          ("boolean_spellings", "every switch documented in docs/arguments.rst (Default: True/False): 21 keyword spellings and --x / --no-x give the documented boolean")):
        rep = ck.native(routine, {"repo_root": ck.repo.root}, timeout=600)
        entry = {"label": "exhaustive-finite", "table": what, "cases": rep.get("total"), "failures": rep.get("failures", rep)}
        ck.finite.append(entry)
        if rep.get("failures"):
            f = rep["failures"][0]
            ck.fail("adjustments/finite:%s" % routine, "case:" + repr(f)[:120], "finite table %s: %s" % (routine, f), replay={"case": f, "label": "exhaustive-finite"}, reproduced=True)
        elif "error" in rep:
            ck.ob("adjustments/finite:%s" % routine, "undecided", kind="finite", backend="native", detail={"reason": str(rep)[:300]})
    ck.trusted.extend(["kw is modelled as any subset of {listen, host, port, sockets, unix_socket, send_bytes}; trusted_proxy_headers as any subset of the six kinds in several spellings plus an unknown kind",
                       "only the validation segments of __init__ are executed symbolically (cut points); the listen/getaddrinfo segment and the cast loop are outside (structural + finite checks)",
                       "getopt.getopt (stdlib) in the CLI table; the docs comparison is a finite table, not a deduction"])
    ck.assumptions.append("values whose validity depends on the resolver (getaddrinfo) or the OS are not decided")
    return ck.finish("Exclusion of the four socket-option groups proved as one propositional obligation over symbolic key presence (both directions: accepted implies at most one group, refused implies two); "
                     "proxy cross-checks proved for every subset/spelling of header kinds; unknown names refused before assignment (structural); CLI/keyword equivalence, documentation and socket-type tables "
                     "are exhaustive finite evaluations of the real code, reported separately.")


if __name__ == "__main__":
    from vlib.report import run_check
    run_check(main)
