"""Shared run of the channel.py functions (used by C04 C05 C09 C11 C12 C13 C18 C19)."""
from vlib import world

CH = "channel.HTTPChannel"
JOBS = [
    (CH + "._flush_some", "IOL"), (CH + "._flush_some", "W"),       # no unlocked caller is left (FX-C04-40d7a9a)
    (CH + "._flush_some_if_lockable", "IO"),
    (CH + "._flush_outbufs_below_high_watermark", "W"),
    (CH + ".write_soon", "W"),
    (CH + ".send_continue", "IO"), (CH + ".send_continue", "W"),
    (CH + ".handle_write", "IO"), (CH + ".handle_close", "IO"),
    (CH + ".readable", "IO"), (CH + ".writable", "IO"),
    (CH + ".service", "W"), (CH + ".received", "IO"), (CH + ".__init__", "IO"), (CH + ".del_channel", "IO"),
    # socket-facing layer: the real wasyncore.dispatcher.send / recv bodies over a demonic kernel socket, and the read handler
    ("wasyncore.dispatcher.send", "IOL"), ("wasyncore.dispatcher.send", "W"), ("wasyncore.dispatcher.recv", "IO"), (CH + ".handle_read", "IO"),
]


def run(ck, jobs=None):
    return world.run_functions(ck, ["channel"], jobs or JOBS, timeout=20 if ck.tier == "quick" else 60, hooks_mod="contracts.channel")
