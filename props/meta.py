"""What each claimed check asserts (source for MANIFEST.json)."""
ENGINES = [
    {"name": "pyvc", "path": "vlib/pyvc.py, vlib/contract.py, vlib/loops.py, vlib/builtins_model.py, vlib/monitor.py, vlib/world.py, vlib/smt.py",
     "serves_properties": ["C06", "C14", "C17"],
     "kind_free_text": "VC generator: symbolic execution of the real function ASTs against sidecar contracts (pre/post, class and loop invariants, variants, raises clauses, monitor invariants, ghost state); obligations discharged by cvc5 1.0.3 / z3 5.1.0"},
    {"name": "relang+sitelang", "path": "vlib/relang.py, vlib/sitelang.py", "serves_properties": ["C10"],
     "kind_free_text": "regular-language decision procedure: symbolic execution of the real acceptance fragments with regular pre-images, DFA product equivalence against RFC grammars"},
]
NOT_APPLICABLE = {}
META = {
    "C06": dict(engine="pyvc", level="proof", design_ref="DESIGN.md section 6 C06",
        technique="contract-based deductive verification (pyvc VC generation from the real AST, cvc5/z3)",
        text="The bodies of both receivers, HTTPRequestParser.received/parse_header, get_header_lines and split_uri are verified against contracts for every input byte string, every object state satisfying the class invariants and every value of the limits: no exception other than the declared parsing errors escapes (each builtin precondition is an obligation), results stay in [0, len(data)], variants give termination of the chunk loop, and reaching max_request_header_size / max_request_body_size forces a completed request carrying the 431/413 error object.",
        note="trusted: pyvc and its Python-subset semantics, the builtin/stdlib contracts, solvers; composition into the end-to-end response/closure statement is argued per clause (C01/C03/C11), not one theorem"),
    "C14": dict(engine="pyvc", level="proof", design_ref="DESIGN.md section 6 C14 and section 5",
        technique="contract-based deductive verification: monitor invariant with ghost sequences, obligations at every lock release/wait",
        text="Classical monitor rule on the real ThreadedTaskDispatcher methods: the invariant submitted == taken ++ queue and the stop-count bounds are proved at every release and wait; per-thread ghost sequences prove each taken task is serviced exactly once by a worker (never cancelled) or cancelled exactly once by shutdown (never serviced); set_thread_count establishes the target and workers/add_task preserve it; workers survive any BaseException.",
        note="trusted: monitor rule soundness (R1 is itself checked), Lock/Condition model without spurious wake-ups, demonic task bodies; liveness (convergence, shutdown timeout) not decided"),
    "C17": dict(engine="pyvc", level="proof", design_ref="DESIGN.md section 6 C17",
        technique="contract-based deductive verification over an abstract view (FIFO byte queue) with representation invariants; file model assumed",
        text="Every public operation of FileBasedBuffer, OverflowableBuffer (including all migrations between bytes / BytesIO / tempfile representations) and ReadOnlyFileBasedBuffer is verified for all inputs and thresholds against whole-view FIFO contracts, representation invariants and the copy-loop invariant; the file model itself is an assumption exercised by a bounded stand-in.",
        note="trusted: the (content, pos) file model for BytesIO/TemporaryFile; prune() not under contract; I/O errors out of scope"),
    "C10": dict(engine="relang+sitelang", level="proof", design_ref="DESIGN.md section 6 C10",
        technique="contract-based deductive verification: per-site language-equality obligations generated from the AST of the real functions and discharged on automata (all lengths)",
        text="For each framing-critical acceptance site the exact regular language of tokens the real code refuses is derived from the function's AST (regular pre-images of strip/slice/find/regex gates, for tokens of every length) and proved equal to the RFC grammar by DFA product construction; every difference comes with a shortest witness replayed through the real function. Residual, recorded differences (request-line leniency) are listed in known_findings.json, so the evidence level is 'other' while they remain.",
        note="trusted: the automata code itself (guarded by native replay and by bounded model-vs-real validation), python re semantics as encoded in relang, my ABNF transcription in spec/rfc.py, int() literal semantics"),
}
