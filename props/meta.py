"""What each claimed check asserts (source for MANIFEST.json)."""
ENGINES = [
    {"name": "relang+sitelang", "path": "vlib/relang.py, vlib/sitelang.py", "serves_properties": ["C10"],
     "kind_free_text": "regular-language decision procedure: symbolic execution of the real acceptance fragments with regular pre-images, DFA product equivalence against RFC grammars"},
]
NOT_APPLICABLE = {}
META = {
    "C10": dict(engine="relang+sitelang", level="proof", design_ref="DESIGN.md section 6 C10",
        technique="contract-based deductive verification: per-site language-equality obligations generated from the AST of the real functions and discharged on automata (all lengths)",
        text="For each framing-critical acceptance site the exact regular language of tokens the real code refuses is derived from the function's AST (regular pre-images of strip/slice/find/regex gates, for tokens of every length) and proved equal to the RFC grammar by DFA product construction; every difference comes with a shortest witness replayed through the real function. Residual, recorded differences (request-line leniency) are listed in known_findings.json, so the evidence level is 'other' while they remain.",
        note="trusted: the automata code itself (guarded by native replay and by bounded model-vs-real validation), python re semantics as encoded in relang, my ABNF transcription in spec/rfc.py, int() literal semantics"),
}
