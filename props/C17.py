"""C17 -- buffers are faithful byte queues across all representation changes."""
from vlib.report import Check
from vlib import world

MODS = ["buffers"]
FUNCS = ["buffers.FileBasedBuffer.__len__", "buffers.FileBasedBuffer.append", "buffers.FileBasedBuffer.get", "buffers.FileBasedBuffer.skip",
         "buffers.FileBasedBuffer.getfile", "buffers.FileBasedBuffer.close", "buffers.FileBasedBuffer.__init__",
         "buffers.OverflowableBuffer.__len__", "buffers.OverflowableBuffer.append", "buffers.OverflowableBuffer.get", "buffers.OverflowableBuffer.skip",
         "buffers.OverflowableBuffer.getfile", "buffers.OverflowableBuffer.close",
         "buffers.ReadOnlyFileBasedBuffer.prepare", "buffers.ReadOnlyFileBasedBuffer.get", "buffers.ReadOnlyFileBasedBuffer.skip"]


def main(argv=None):
    ck = Check("C17", argv, level="proof")
    res = world.run_functions(ck, MODS, FUNCS, timeout=20 if ck.tier == "quick" else 60)
    from vlib.modelreplay import make_replayer
    world.report(ck, res, replayer=make_replayer(ck, MODS))
    # bounded stand-in for the ASSUMED file model and for the composition across representation changes
    k = 2 if ck.tier == "quick" else 3
    payload = {"k": k, "overflows": [0, 1, 8191, 8192, 8193, 20000], "seed": ck.seed, "random": 200 if ck.tier == "quick" else 5000}
    rep = ck.native("histories", payload, timeout=3000)
    entry = {"label": "bounded", "what": "real OverflowableBuffer over real BytesIO/TemporaryFile vs a bytearray queue",
             "bound": "all operation histories of length <= %d over 17 operations (sizes 0, 1, limit-1, limit, limit+1, overflow-1..+1) x 6 overflow thresholds, plus %d seeded random histories (VERIF_SEED)" % (k, payload["random"]),
             "evaluations": rep.get("total", 0), "failures": rep.get("failures", rep)}
    ck.bounded.append(entry)
    if rep.get("failures"):
        f = rep["failures"][0]
        ck.fail("buffers.OverflowableBuffer/bounded:fifo-histories", "history:" + repr(f)[:80], "bounded stand-in: real buffer deviates from a FIFO byte queue: %s" % f["problem"],
                replay={"history": f, "label": "bounded"}, reproduced=True)
    if ck.tier == "thorough":
        from vlib.runtime import run_monitor
        run_monitor(ck, ("buffers.",))
    ck.trusted.extend([
        "file model of contracts/buffers.py (content, pos; read/write/seek/tell) for BytesIO and TemporaryFile -- validated only by the bounded stand-in",
        "pyvc VC generator; cvc5/z3; builtin string/slice semantics",
        "OverflowableBuffer._create_buffer/_set_small_buffer/_set_large_buffer and the BytesIO/Tempfile constructors are inlined (their real bodies are executed symbolically), FileBasedBuffer methods are used by contract",
    ])
    ck.assumptions.extend(["prune() is outside the property's quantifier and not under contract", "I/O errors (disk full) are outside the file model",
                           "ReadOnlyFileBasedBuffer is verified for seekable files (the case with a prepared size)"])
    return ck.finish("Every public operation of FileBasedBuffer, OverflowableBuffer and ReadOnlyFileBasedBuffer is verified, for all byte strings, sizes, positions and overflow thresholds, "
                     "against FIFO contracts stated over the whole abstract view (view' == view + s, prefix/consume laws, len == |view|), with representation invariants "
                     "(remain == len(content) - pos) and the copy-loop invariant of the migrating constructor; the file model is assumed and exercised by a bounded stand-in.")


if __name__ == "__main__":
    from vlib.report import run_check
    run_check(main)
