"""Shared run of the task.py functions (C03, C08, C09)."""
from vlib import world

T = "task.Task"
FUNCS = ["task.WSGITask.execute.<start_response>", T + ".build_response_header", T + ".set_close_on_finish", T + ".has_body", T + ".write", T + ".finish",
         T + ".service", T + ".remove_content_length_header", "task.ErrorTask.execute", "task.WSGITask.execute"]


def run(ck, funcs=None):
    return world.run_functions(ck, ["task"], funcs or FUNCS, timeout=20 if ck.tier == "quick" else 60, hooks_mod="contracts.task")
