"""C18 -- connection limit holds; idle connections are reaped, busy ones never."""
from vlib.report import Check
from vlib import world
from props import chanworld

S = "server.BaseWSGIServer"


def main(argv=None):
    ck = Check("C18", argv, level="other")
    res = world.run_functions(ck, ["server"], [S + ".readable", S + ".maintenance", S + ".handle_accept"], timeout=20, hooks_mod="contracts.server")
    world.report(ck, res)
    res2 = chanworld.run(ck, [("channel.HTTPChannel.writable", "IO"), ("channel.HTTPChannel.handle_write", "IO"), ("channel.HTTPChannel.received", "IO"),
                              ("channel.HTTPChannel.service", "W"), ("channel.HTTPChannel.__init__", "IO"),
                              ("channel.HTTPChannel.handle_read", "IO"), ("channel.HTTPChannel._flush_some", "IOL"), ("channel.HTTPChannel._flush_some", "W")])
    world.report(ck, res2, select=lambda n: any(p in n for p in ("C18-", "coverage:", "R3:io-only-appends", "R3:worker-never-appends", "R1[req]:requests-")))
    ck.trusted.extend(["the I/O loop evaluates readable() of every map entry before each blocking call and delivers at most one read event per descriptor per turn (structure of wasyncore.poll/poll2: read, not proved here)",
                       "`requests != []` from received()'s append until service()'s pop (R3 stability: only the I/O thread appends, only the worker pops; both are obligations of this run)",
                       "time.time() is a non-decreasing integer clock", "pyvc, cvc5/z3"])
    ck.assumptions.extend(["NOT decided: 'closed within one cleanup_interval plus one loop period' (real-time bound; depends on select() reporting the socket writable) and the simulated-clock history quantifier",
                           "known window (DESIGN section 7 #22): last_activity is refreshed only at the end of service(), after the request was popped"])
    return ck.finish("Admission: readable() of the listener is true exactly when it is accepting and the map is below connection_limit (so nothing is accepted at the limit and accepting resumes below it), the overflow flag "
                     "tracks the limit, handle_accept adds at most one descriptor and never stops accepting. Reap guard: maintenance() sets will_close only for channels with an empty request queue and a stale "
                     "last_activity; will_close makes the channel writable and handle_write then closes it. Timing clauses are not decidable by contracts on this code and are reported as undecided here, hence level other.")


if __name__ == "__main__":
    from vlib.report import run_check
    run_check(main)
