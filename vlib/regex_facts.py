"""Regex gates inside SMT obligations are uninterpreted predicates re!NAME!method(x).
Facts about them are NOT assumed: for every (compiled pattern of the running module, method
used at the call site) each candidate fact `L(pattern, method) subseteq F` is decided on automata
(relang); only facts that hold are instantiated, on the actual argument term.  Each decided
inclusion is reported as an obligation of the property that uses it."""
import z3

from . import relang as rl
from .builtins_model import F_INT, F_INT_OK
from spec import rfc

INT_MAX_STR_DIGITS = 4300     # sys.get_int_max_str_digits() default; re-read natively by C06's replay


def _facts():
    return [
        ("nonempty", rl.rplus(rl.ANY), lambda x, m: z3.Implies(m, z3.Length(x) >= 1)),
        ("no-cr", None, lambda x, m: z3.Implies(m, z3.Not(z3.Contains(x, z3.StringVal("\r"))))),
        ("no-lf", None, lambda x, m: z3.Implies(m, z3.Not(z3.Contains(x, z3.StringVal("\n"))))),
        ("int16-literal", rfc.PY_INT16, lambda x, m: z3.Implies(m, F_INT_OK[16](x))),
        ("int10-literal-within-digit-limit", rfc.PY_INT10,
         lambda x, m: z3.Implies(z3.And(m, z3.Length(x) <= INT_MAX_STR_DIGITS), F_INT_OK[10](x))),
        ("int-nonneg", "no-minus", lambda x, m: z3.Implies(m, z3.And(F_INT[16](x) >= 0, F_INT[10](x) >= 0))),
        ("no-semicolon", None, lambda x, m: z3.Implies(m, z3.Not(z3.Contains(x, z3.StringVal(";"))))),
    ]


class RegexFacts:
    def __init__(self, repo, modules=("rfc7230", "parser")):
        self.repo = repo
        self.patterns = {}
        masks = set()
        for mn in modules:
            mod = repo.module(mn)
            for n, v in vars(mod).items():
                if hasattr(v, "pattern") and hasattr(v, "groupindex"):
                    try:
                        p = rl.PyPattern(v)
                    except rl.Unsupported:
                        continue
                    self.patterns[n] = p
                    rl.masks_in(p.core, masks)
        for r in (rfc.PY_INT16, rfc.PY_INT10):
            rl.masks_in(r, masks)
        for b in (b"\r", b"\n", b"-", b";", b"_", b"+"):
            masks.add(rl.mask_of(b))
        self.alpha = rl.Alphabet(masks)
        self.decided = {}      # (pattern, method, fact) -> bool
        self.log = []

    def fact_language(self, name, spec):
        A = self.alpha
        if name == "no-cr":
            return rl.not_containing(A, b"\r")
        if name == "no-lf":
            return rl.not_containing(A, b"\n")
        if name == "no-semicolon":
            return rl.not_containing(A, b";")
        if spec == "no-minus":
            return rl.not_containing(A, b"-")
        return rl.dfa(A, spec)

    def holds(self, pat, method, fname, spec):
        key = (pat, method, fname)
        if key not in self.decided:
            try:
                L = rl.dfa(self.alpha, self.patterns[pat].language(method))
                ok = (L - self.fact_language(fname, spec)).is_empty()
            except (rl.Unsupported, KeyError):
                ok = False
            self.decided[key] = ok
            self.log.append({"pattern": pat, "method": method, "fact": fname, "holds": ok})
        return self.decided[key]

    def install(self, reg):
        facts = _facts()
        outer = self

        class Lemmas(dict):
            def get(self, key, default=None):
                pat, method = key
                if pat not in outer.patterns:
                    return default or []
                out = []
                for fname, spec, inst in facts:
                    if outer.holds(pat, method, fname, spec):
                        out.append(lambda eng, arg, matched, _inst=inst: eng.assume(_inst(arg.t, matched)))
                return out
        reg.regex_lemmas = Lemmas()
