"""Loop handling: cut by sidecar invariants (unbounded), or unrolled when the
iteration space is concrete (constant tuples / frozensets read from the tree)."""
import ast

import z3

from . import pyvc

from .pyvc import (BreakSig, ContinueSig, Frame, ListModel, OutOfSubset, PathEnd, VBool, VDict, VInt, VList, VObj, VOpaque, VStr, VTuple,
                   is_true, simp)


def static_ordinals(eng, qual):
    """loop ordinal = position of the For/While statement in source order inside the function (nested functions excluded)"""
    cache = eng.__dict__.setdefault("_loop_ordinals", {})
    if qual not in cache:
        fn = eng.repo.find(qual)
        order = {}
        if fn is not None:
            loops = []

            def walk(node):
                for ch in ast.iter_child_nodes(node):
                    if isinstance(ch, (ast.FunctionDef, ast.AsyncFunctionDef, ast.Lambda, ast.ClassDef)):
                        continue
                    if isinstance(ch, (ast.For, ast.While)):
                        loops.append(ch)
                    walk(ch)
            walk(fn)
            loops.sort(key=lambda n: (n.lineno, n.col_offset))
            order = {(n.lineno, n.col_offset): i for i, n in enumerate(loops)}
        cache[qual] = order
    return cache[qual]


def loop_spec(eng, fr, node=None):
    con = eng.reg.contract(fr.qual) or eng.reg.contract(eng.cur_func)
    order = static_ordinals(eng, fr.qual) if node is not None else {}
    if node is not None and (node.lineno, node.col_offset) in order:
        k = order[(node.lineno, node.col_offset)]
    else:
        k = fr.loop_ordinal
    fr.loop_ordinal += 1
    spec = None
    if con is not None:
        spec = con.loops.get(k)
    return k, spec


MUTATORS = {"append", "extend", "pop", "popleft", "remove", "discard", "add", "clear", "update", "insert", "setdefault", "appendleft"}


def mutated_containers(body):
    """expressions (as source text: 'x' or 'self.f') whose list/dict value is mutated in place inside the loop body"""
    out = set()

    def base_text(n):
        if isinstance(n, ast.Name):
            return n.id
        if isinstance(n, ast.Attribute) and isinstance(n.value, ast.Name):
            return n.value.id + "." + n.attr
        return None
    for st in body:
        for n in ast.walk(st):
            if isinstance(n, ast.Subscript) and isinstance(n.ctx, (ast.Store, ast.Del)):
                t = base_text(n.value)
                if t:
                    out.add(t)
            elif isinstance(n, ast.AugAssign) and isinstance(n.target, ast.Subscript):
                t = base_text(n.target.value)
                if t:
                    out.add(t)
            elif isinstance(n, ast.AugAssign) and isinstance(n.target, (ast.Name, ast.Attribute)):
                t = base_text(n.target)      # xs += [...] mutates a list in place
                if t:
                    out.add(t)
            elif isinstance(n, ast.Call) and isinstance(n.func, ast.Attribute) and n.func.attr in MUTATORS:
                t = base_text(n.func.value)
                if t:
                    out.add(t)
    return out


def assigned_names(body):
    names = set()
    fields = set()
    for st in body:
        for n in ast.walk(st):
            if isinstance(n, ast.Name) and isinstance(n.ctx, (ast.Store, ast.Del)):
                names.add(n.id)
            elif isinstance(n, ast.Attribute) and isinstance(n.ctx, ast.Store) and isinstance(n.value, ast.Name):
                fields.add((n.value.id, n.attr))
            elif isinstance(n, ast.AugAssign):
                t = n.target
                if isinstance(t, ast.Name):
                    names.add(t.id)
                elif isinstance(t, ast.Attribute) and isinstance(t.value, ast.Name):
                    fields.add((t.value.id, t.attr))
    return names, fields


def callee_modifies(eng, body, fr):
    """heap locations modified through contracted callees inside the loop body"""
    from .contract import resolve_location
    locs = []
    for st in body:
        for n in ast.walk(st):
            if isinstance(n, ast.Call) and isinstance(n.func, ast.Attribute):
                try:
                    recv = pure_eval(eng, n.func.value, fr)
                except Exception:
                    continue
                if isinstance(recv, VObj):
                    m = eng.find_method(recv.cls, n.func.attr)
                    if m is None:
                        continue
                    con = eng.reg.contract(m[0] + "." + n.func.attr)
                    if con is not None and not con.inline:
                        for loc in con.modifies:
                            try:
                                locs.append(resolve_location(eng, loc, {"self": recv}))
                            except Exception:
                                pass
    return locs


def pure_eval(eng, node, fr):
    if isinstance(node, ast.Name):
        return fr.env[node.id]
    if isinstance(node, ast.Attribute):
        b = eng.force(pure_eval(eng, node.value, fr))
        if isinstance(b, VObj) and (b.oid, node.attr) in eng.state.heap:
            return eng.state.heap[(b.oid, node.attr)]
    raise KeyError


def havoc(eng, fr, body, spec):
    from .contract import havoc_like, field_type, resolve_location
    names, fields = assigned_names(body)
    locs = callee_modifies(eng, body, fr)
    for loc in (spec.modifies if spec else []):
        locs.append(resolve_location(eng, loc, fr.env))
    types = spec.types if spec else {}
    for nm in sorted(names):
        if nm in fr.env:
            fr.env[nm] = havoc_like(eng, fr.env[nm], nm, types.get(nm))
    for var, f in sorted(fields):
        base = fr.env.get(var)
        if isinstance(base, VObj):
            cur = eng.state.heap.get((base.oid, f))
            ty = field_type(eng, base, f)
            if cur is None and ty is None:
                d = eng.class_attr_default(base.cls, f)
                if d is not None:
                    cur = eng.eval(d[1], Frame(d[0].split(".")[0], d[0], {}))
                else:
                    raise OutOfSubset("loop havoc: field %s.%s has unknown type" % (var, f))
            eng.state.heap[(base.oid, f)] = havoc_like(eng, cur, "%s.%s" % (var, f), ty)
    for obj, f in locs:
        cur = eng.state.heap.get((obj.oid, f))
        ty = field_type(eng, obj, f)
        eng.state.heap[(obj.oid, f)] = havoc_like(eng, cur, "loc.%s" % f, ty)
    # containers mutated in place keep their identity but lose their content
    for text in sorted(mutated_containers(body)):
        try:
            node = ast.parse(text, mode="eval").body
            val = eng.force(pure_eval(eng, node, fr))
        except Exception:
            continue
        if isinstance(val, (VList, VDict)):
            havoc_like(eng, val, text, types.get(text))


def eval_inv(eng, text, fr, old=None):
    env = dict(fr.env)
    return eng.truth(eng.eval_spec(text, env, fr.modname, old=old or getattr(fr, "old_state", None), old_env=getattr(fr, "entry_env", None)))


def eval_inv_value(eng, text, fr):
    return eng.eval_spec(text, dict(fr.env), fr.modname, old=getattr(fr, "old_state", None), old_env=getattr(fr, "entry_env", None))


def assume_invs(eng, spec, fr):
    eng.assuming = True
    try:
        for nm, text in list(spec.invariants) + list(getattr(spec, "assumed", [])):
            eng.assume(eval_inv(eng, text, fr))
    finally:
        eng.assuming = False


def variant_terms(eng, text, fr):
    v = eng.eval_spec(text, dict(fr.env), fr.modname)
    if isinstance(v, VTuple):
        return [eng.force(x).t if not isinstance(eng.force(x), VBool) else z3.If(eng.force(x).t, 1, 0) for x in v.items]
    v = eng.force(v)
    return [v.t]


def lex_less(new, old):
    """new < old lexicographically, all components >= 0 in old"""
    conds = []
    prefix_eq = z3.BoolVal(True)
    for n, o in zip(new, old):
        conds.append(z3.And(prefix_eq, n < o, o >= 0))
        prefix_eq = z3.And(prefix_eq, n == o)
    return z3.Or(conds)


def exec_while(eng, node, fr):
    k, spec = loop_spec(eng, fr, node)
    label = "%s/loop%d" % (eng.cur_func if fr.qual == eng.cur_func or True else fr.qual, k)
    if fr.qual != eng.cur_func:
        label = "%s[%s]/loop%d" % (eng.cur_func, fr.qual.split(".")[-1], k)
    if spec is None or (not spec.invariants and spec.unroll is None and spec.variant is None):
        # no invariant: bounded unrolling is only sound if the loop exits by itself within the bound
        return unroll_while(eng, node, fr, label, (spec.unroll if spec else None) or 8)
    if spec.unroll is not None:
        return unroll_while(eng, node, fr, label, spec.unroll)
    # 1. invariants on entry
    entry_state = eng.state.snapshot()
    for nm, text in spec.invariants:
        eng.oblige("%s/inv-entry:%s" % (label, nm), eval_inv(eng, text, fr, old=getattr(fr, "old_state", None)), clause=text, kind="loop-inv")
    # 2. arbitrary iteration or exit
    havoc(eng, fr, node.body, spec)
    assume_invs(eng, spec, fr)
    iteration = eng.choose(2, "loop_iter") == 0
    guard = eng.truth(eng.eval(node.test, fr))
    if iteration:
        eng.assume(guard)
        if not smt_feasible(eng):
            raise PathEnd("loop body unreachable")
        v_old = variant_terms(eng, spec.variant, fr) if spec.variant else None
        broke = False
        try:
            try:
                eng.exec_block(node.body, fr)
            except ContinueSig:
                pass
        except BreakSig:
            broke = True
        if broke:
            return      # continue after the loop with the current state (orelse skipped)
        for nm, text in spec.invariants:
            eng.oblige("%s/inv-preserved:%s" % (label, nm), eval_inv(eng, text, fr), clause=text, kind="loop-inv")
        if v_old is not None:
            v_new = variant_terms(eng, spec.variant, fr)
            eng.oblige("%s/variant-decreases" % label, lex_less(v_new, v_old), clause=spec.variant, kind="variant")
        raise PathEnd("loop body end")
    else:
        eng.assume(z3.Not(guard))
        if not smt_feasible(eng):
            raise PathEnd("loop exit unreachable")
        eng.exec_block(node.orelse, fr)


def smt_feasible(eng):
    from . import smt
    return smt.feasible(eng.state.pc, eng.feas_timeout_ms)


def unroll_while(eng, node, fr, label, bound):
    for i in range(bound + 1):
        if not eng.branch(eng.truth(eng.eval(node.test, fr))):
            eng.exec_block(node.orelse, fr)
            return
        if i == bound:
            raise OutOfSubset("loop %s needs an invariant (not finished after %d unrollings)" % (label, bound), node)
        try:
            try:
                eng.exec_block(node.body, fr)
            except ContinueSig:
                pass
        except BreakSig:
            return


def exec_for(eng, node, fr):
    k, spec = loop_spec(eng, fr, node)
    label = "%s/loop%d" % (eng.cur_func, k)
    if fr.qual != eng.cur_func:
        label = "%s[%s]/loop%d" % (eng.cur_func, fr.qual.split(".")[-1], k)
    it = eng.force(eng.eval(node.iter, fr))
    items = None
    if isinstance(it, VTuple):
        items = it.items
    elif isinstance(it, VList):
        m = eng.state.lists[it.lid]
        if m.items is not None:
            items = list(m.items)
    elif isinstance(it, VDict):
        dm = eng.state.dicts[it.did]
        if not dm.open:
            items = []
            for key, (p, v) in dm.entries.items():
                items.append(("dictkey", key, p))
    if items is not None:
        try:
            for x in items:
                if isinstance(x, tuple) and x and x[0] == "dictkey":
                    if not eng.branch(x[2]):
                        continue
                    x = VStr(x[1], False)
                eng.assign_target(node.target, x, fr, node)
                try:
                    eng.exec_block(node.body, fr)
                except ContinueSig:
                    pass
        except BreakSig:
            return
        eng.exec_block(node.orelse, fr)
        return
    if isinstance(it, VOpaque):
        return exec_for_opaque(eng, node, fr, it, spec, label)
    if isinstance(it, VObj) and eng.find_method(it.cls, "__iter__"):
        proxy = VOpaque("obj:" + it.cls)
        return exec_for_opaque(eng, node, fr, proxy, spec, label)
    if not isinstance(it, VList):
        raise OutOfSubset("for over %r" % (it,), node)
    m = eng.state.lists[it.lid]
    if spec is None:
        raise OutOfSubset("for-loop %s over an abstract list needs an invariant" % label, node)
    idx_name = spec.index or "_i"
    fr.env[idx_name] = VInt(0)
    its = getattr(spec, "iterates", None)
    if its:
        # (name, separator, source text): the collection walked by this loop IS source.split(separator) -- decided on the provenance the
        # list model carries (which builtin produced it, from which string) and an SMT equality on the source string
        nm, sep, src = its
        so = getattr(m, "split_of", None)
        if so is not None and so[1] == sep:
            goal = eng.force(so[0]).t == eng.force(eval_inv_value(eng, src, fr)).t
        elif so is not None or m.tag == "splitlines":
            goal = z3.BoolVal(False)          # cut at other places than `sep` (another separator, or every line boundary Python knows)
        else:
            raise OutOfSubset("for-loop %s: cannot tell how the iterated collection was cut (expected %s.split(%r))" % (label, src, sep), node)
        eng.oblige("%s/at-entry:%s" % (label, nm), goal, clause="the loop walks exactly %s.split(%r)" % (src, sep), kind="loop-inv")
    for nm, text in spec.invariants:
        eng.oblige("%s/inv-entry:%s" % (label, nm), eval_inv(eng, text, fr), clause=text, kind="loop-inv")
    for nm, text in getattr(spec, "entry_only", []):
        eng.oblige("%s/at-entry:%s" % (label, nm), eval_inv(eng, text, fr), clause=text, kind="loop-inv")
    havoc(eng, fr, node.body, spec)
    i = eng.fresh_int(idx_name)
    eng.assume(i.t >= 0)
    eng.assume(i.t <= m.length)
    fr.env[idx_name] = i
    assume_invs(eng, spec, fr)
    iteration = eng.choose(2, "for_iter") == 0
    if iteration:
        eng.assume(i.t < m.length)
        x = eng.list_elem(it, m, i.t)
        eng.assign_target(node.target, x, fr, node)
        broke = False
        visit_all = getattr(spec, "must_exhaust", None)
        try:
            try:
                eng.exec_block(node.body, fr)
            except ContinueSig:
                pass
            except (pyvc.RaiseSig, pyvc.ReturnSig):
                if visit_all:
                    # the loop is left before the remaining elements were visited (exception / return out of the body)
                    eng.oblige("%s/each-element-visited:%s" % (label, visit_all), z3.BoolVal(False),
                               clause="no exception or return leaves the loop before every element of the collection was processed", kind="loop-inv")
                raise
        except BreakSig:
            broke = True
            if visit_all:
                eng.oblige("%s/each-element-visited:%s" % (label, visit_all), z3.BoolVal(False),
                           clause="no break leaves the loop before every element of the collection was processed", kind="loop-inv")
        if broke:
            return
        if visit_all:
            # the same obligation, trivially true on the iterations that run to their end (so that it exists on the unchanged tree)
            eng.oblige("%s/each-element-visited:%s" % (label, visit_all), z3.BoolVal(True),
                       clause="no exception, return or break leaves the loop before every element of the collection was processed", kind="loop-inv")
        for pname in getattr(spec, "establishes", []):
            eng.oblige("%s/establishes:%s" % (label, pname), eng.reg.elem_preds[pname](eng, eng.force(x)),
                       clause="an element that passes one full iteration satisfies %s" % pname, kind="loop-inv")
        for nm, text in getattr(spec, "body_post", ()) or ():
            # a statement about the element just processed (the arbitrary element of the iterated collection)
            eng.oblige("%s/each-iteration:%s" % (label, nm), eval_inv(eng, text, fr), clause=text, kind="loop-inv")
        fr.env[idx_name] = VInt(i.t + 1)
        for nm, text in spec.invariants:
            eng.oblige("%s/inv-preserved:%s" % (label, nm), eval_inv(eng, text, fr), clause=text, kind="loop-inv")
        raise PathEnd("for body end")
    else:
        eng.assume(i.t == m.length)
        for pname in getattr(spec, "establishes", []):
            pred = eng.reg.elem_preds[pname]
            if not any(getattr(f, "pred_name", None) == pname for f in m.elem_facts):
                f = lambda e, x, _p=pred: _p(e, e.force(x))
                f.pred_name = pname
                m.elem_facts.append(f)
                m.__dict__.pop("cache", None)
        eng.exec_block(node.orelse, fr)


def exec_for_opaque(eng, node, fr, it, spec, label):
    """iteration over a demonic iterable (application iterator): each next() may yield any value of
    the declared element type, stop, or raise; handled by the iterable's EnvSpec in registry.demonic."""
    env = eng.reg.demonic.get("iter:" + it.tag)
    if env is None:
        raise OutOfSubset("for over opaque %s without a demonic iterator spec" % it.tag, node)
    if spec is None:
        raise OutOfSubset("for-loop %s over a demonic iterable needs an invariant" % label, node)
    for nm, text in spec.invariants:
        eng.oblige("%s/inv-entry:%s" % (label, nm), eval_inv(eng, text, fr), clause=text, kind="loop-inv")
    havoc(eng, fr, node.body, spec)
    assume_invs(eng, spec, fr)
    if getattr(env, "before_next", None):
        env.before_next(eng, it, fr)      # the iterator's next() may first do other things (e.g. call start_response)
    c = eng.choose(3, "next")     # 0: yields, 1: exhausted, 2: raises
    if c == 2:
        from .pyvc import RaiseSig, VExc
        eng.emit("env_raise", tag=it.tag, node=node)
        raise RaiseSig(VExc("BaseException:opaque"))
    if c == 1:
        eng.exec_block(node.orelse, fr)
        return
    x = eng.fresh_of_type(env.returns, "chunk")
    eng.emit("env_next", tag=it.tag, value=x, node=node)
    eng.assign_target(node.target, x, fr, node)
    broke = False
    try:
        try:
            eng.exec_block(node.body, fr)
        except ContinueSig:
            pass
    except BreakSig:
        broke = True
    if broke:
        return
    for nm, text in spec.invariants:
        eng.oblige("%s/inv-preserved:%s" % (label, nm), eval_inv(eng, text, fr), clause=text, kind="loop-inv")
    raise PathEnd("for body end")
