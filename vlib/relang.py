"""relang -- regular-language back end.

Compiled `re` patterns of the running waitress modules are parsed with
`re._parser`, turned into automata over the byte alphabet 0..255, and compared
with grammar automata by product construction.  All automata of one check share
an `Alphabet` (a partition of 0..255 into classes refined from every character
set that occurs), so DFAs are plain tables.

Python `re` semantics encoded here (and nowhere else):
  * `^` is only supported as the first item, `$` only as the last item of the
    top-level sequence; any other anchor/lookaround -> Unsupported.
  * method `fullmatch`: L(core)                      (a final `$` adds nothing)
  * method `match` with final `$`:  L(core) . (eps | "\n")
  * method `match` without `$`:     L(core) . Sigma*
  * method `search`: Sigma* in front unless `^` is present.
  * lazy vs greedy quantifiers do not change the language.
"""
import re

try:  # py3.11+
    from re import _parser as sre_parse
    from re import _constants as sre_c
except ImportError:  # pragma: no cover
    import sre_parse
    import sre_constants as sre_c

FULL = (1 << 256) - 1


class Unsupported(Exception):
    pass


def mask_of(chars):
    m = 0
    for c in chars:
        m |= 1 << (c if isinstance(c, int) else ord(c))
    return m


def mask_range(lo, hi):
    return ((1 << (hi + 1)) - 1) & ~((1 << lo) - 1)


def bytes_of_mask(m):
    return [i for i in range(256) if (m >> i) & 1]


# ---------------------------------------------------------------- regex AST
# ('set', mask) ('cat', (r..)) ('alt', (r..)) ('star', r) ('eps',) ('empty',)
EPS = ("eps",)
EMPTY = ("empty",)


def rset(mask):
    return ("set", mask) if mask else EMPTY


def rlit(bs):
    if isinstance(bs, str):
        bs = bs.encode("latin-1")
    return rcat(*[rset(1 << b) for b in bs])


def rcat(*rs):
    out = []
    for r in rs:
        if r == EMPTY:
            return EMPTY
        if r == EPS:
            continue
        if r[0] == "cat":
            out.extend(r[1])
        else:
            out.append(r)
    if not out:
        return EPS
    if len(out) == 1:
        return out[0]
    return ("cat", tuple(out))


def ralt(*rs):
    out = []
    for r in rs:
        if r == EMPTY:
            continue
        if r[0] == "alt":
            out.extend(r[1])
        else:
            out.append(r)
    if not out:
        return EMPTY
    if len(out) == 1:
        return out[0]
    return ("alt", tuple(out))


def rstar(r):
    if r in (EPS, EMPTY):
        return EPS
    return ("star", r)


def rplus(r):
    return rcat(r, rstar(r))


def ropt(r):
    return ralt(EPS, r)


def rrepeat(r, lo, hi):
    parts = [r] * lo
    if hi is None:
        parts.append(rstar(r))
    else:
        for _ in range(hi - lo):
            parts.append(ropt(r))
    return rcat(*parts)


ANY = rset(FULL)
SIGMA_STAR = rstar(ANY)


def masks_in(r, acc):
    if r[0] == "set":
        acc.add(r[1])
    elif r[0] in ("cat", "alt"):
        for x in r[1]:
            masks_in(x, acc)
    elif r[0] == "star":
        masks_in(r[1], acc)
    return acc


# ------------------------------------------------------- python pattern -> AST
_CATS = None


def _category_mask(cat, is_bytes):
    name = str(cat)
    digit = mask_range(0x30, 0x39)
    space_b = mask_of(b" \t\n\r\x0b\x0c")
    word_b = digit | mask_range(0x41, 0x5A) | mask_range(0x61, 0x7A) | mask_of(b"_")
    if not is_bytes:
        # str patterns over latin-1 code points: use Python's own predicates
        space_s = mask_of([c for c in range(256) if chr(c).isspace()])
        digit_s = mask_of([c for c in range(256) if chr(c).isdigit() and re.match(r"\d", chr(c))])
        word_s = mask_of([c for c in range(256) if re.match(r"\w", chr(c))])
    table = {
        "CATEGORY_DIGIT": digit if is_bytes else digit_s,
        "CATEGORY_NOT_DIGIT": FULL & ~(digit if is_bytes else digit_s),
        "CATEGORY_SPACE": space_b if is_bytes else space_s,
        "CATEGORY_NOT_SPACE": FULL & ~(space_b if is_bytes else space_s),
        "CATEGORY_WORD": word_b if is_bytes else word_s,
        "CATEGORY_NOT_WORD": FULL & ~(word_b if is_bytes else word_s),
    }
    if name not in table:
        raise Unsupported("category %s" % name)
    return table[name]


def _in_mask(items, is_bytes):
    m = 0
    neg = False
    for op, av in items:
        op = str(op)
        if op == "NEGATE":
            neg = True
        elif op == "LITERAL":
            if av > 255:
                raise Unsupported("non latin-1 literal")
            m |= 1 << av
        elif op == "RANGE":
            lo, hi = av
            if hi > 255:
                raise Unsupported("non latin-1 range")
            m |= mask_range(lo, hi)
        elif op == "CATEGORY":
            m |= _category_mask(av, is_bytes)
        else:
            raise Unsupported("in-item %s" % op)
    return (FULL & ~m) if neg else m


def _conv(seq, is_bytes, groups, top=False, override=None):
    """returns (regex, has_begin_anchor, has_end_anchor) ; anchors only legal at top ends"""
    items = list(seq)
    begin = end = False
    if top and items and str(items[0][0]) == "AT" and str(items[0][1]) in ("AT_BEGINNING", "AT_BEGINNING_STRING"):
        begin = True
        items = items[1:]
    end_kind = None
    if top and items and str(items[-1][0]) == "AT" and str(items[-1][1]) in ("AT_END", "AT_END_STRING"):
        end = True
        end_kind = str(items[-1][1])
        items = items[:-1]
    parts = []
    for op, av in items:
        op_s = str(op)
        if op_s == "LITERAL":
            if av > 255:
                raise Unsupported("non latin-1 literal")
            parts.append(rset(1 << av))
        elif op_s == "NOT_LITERAL":
            parts.append(rset(FULL & ~(1 << av)))
        elif op_s == "ANY":
            parts.append(rset(FULL & ~(1 << 10)))  # no DOTALL
        elif op_s == "IN":
            parts.append(rset(_in_mask(av, is_bytes)))
        elif op_s == "BRANCH":
            alts = []
            for alt in av[1]:
                r, b, e = _conv(alt, is_bytes, groups, override=override)
                alts.append(r)
            parts.append(ralt(*alts) if alts else EMPTY)
        elif op_s == "SUBPATTERN":
            gid, add_flags, del_flags, sub = av
            if add_flags or del_flags:
                raise Unsupported("inline flags")
            r, b, e = _conv(sub, is_bytes, groups, override=override)
            if gid is not None:
                groups[gid] = r
                if override and gid in override:
                    r = override[gid](r)
            parts.append(r)
        elif op_s in ("MAX_REPEAT", "MIN_REPEAT", "POSSESSIVE_REPEAT"):
            lo, hi, sub = av
            if op_s == "POSSESSIVE_REPEAT":
                raise Unsupported("possessive repeat")
            r, b, e = _conv(sub, is_bytes, groups, override=override)
            hi2 = None if hi == sre_c.MAXREPEAT else hi
            if hi2 is not None and hi2 > 64:
                raise Unsupported("large bounded repeat")
            parts.append(rrepeat(r, lo, hi2))
        else:
            raise Unsupported("regex construct %s" % op_s)
    return rcat(*parts), begin, (end_kind if end else None)


class PyPattern:
    """A compiled python pattern, as a regular language per calling method."""

    def __init__(self, compiled):
        self.pattern = compiled.pattern
        self.is_bytes = isinstance(compiled.pattern, bytes)
        flags = compiled.flags & ~(re.UNICODE)
        if flags & (re.IGNORECASE | re.MULTILINE | re.DOTALL | re.VERBOSE | re.ASCII & 0):
            raise Unsupported("flags %r" % compiled.flags)
        tree = sre_parse.parse(compiled.pattern)
        self.tree = tree
        self.groups = {}
        self.core, self.begin, self.end = _conv(tree, self.is_bytes, self.groups, top=True)
        self.groupnames = dict(compiled.groupindex)

    def with_group_in(self, name, X):
        """a PyPattern-like object whose group `name` is additionally constrained to the DFA X
        (existential over parses; callers must check it is parse-independent)"""
        gid = self.groupnames[name]
        alpha = X.alpha
        import copy
        other = copy.copy(self)
        other.groups = {}
        other.core, other.begin, other.end = _conv(self.tree, self.is_bytes, other.groups, top=True,
                                                    override={gid: lambda r: (DFA.from_regex(alpha, r) & X).as_regex()})
        return other

    def language(self, method):
        core = self.core
        if method == "fullmatch":
            return core
        if self.end == "AT_END":
            tail = ralt(EPS, rlit(b"\n"))
        elif self.end == "AT_END_STRING":
            tail = EPS
        else:
            tail = SIGMA_STAR
        if method == "match":
            return rcat(core, tail)
        if method == "search":
            head = EPS if self.begin else SIGMA_STAR
            return rcat(head, core, tail)
        raise Unsupported("method %s" % method)

    def group_language(self, name):
        return self.groups[self.groupnames[name]]


# ------------------------------------------------------------------ alphabet
class Alphabet:
    def __init__(self, masks):
        parts = [FULL]
        for m in sorted(set(masks)):
            new = []
            for p in parts:
                a, b = p & m, p & ~m
                if a:
                    new.append(a)
                if b:
                    new.append(b)
            parts = new
        parts.sort(key=lambda p: (p & -p))
        self.classes = parts
        self.n = len(parts)
        self.cls_of = [0] * 256
        for i, p in enumerate(parts):
            for b in bytes_of_mask(p):
                self.cls_of[b] = i
        self.rep = [self._pick(p) for p in parts]

    @staticmethod
    def _pick(mask):
        bs = bytes_of_mask(mask)
        for pref in (b"abcdefghijklmnopqrstuvwxyz", b"ABCDEFGHIJKLMNOPQRSTUVWXYZ", b"0123456789"):
            for b in pref:
                if b in bs:
                    return b
        for b in bs:
            if 0x21 <= b <= 0x7E:
                return b
        return bs[0]

    def classes_of_mask(self, mask):
        out = []
        for i, p in enumerate(self.classes):
            if p & mask:
                if p & ~mask:
                    raise ValueError("alphabet does not refine mask")
                out.append(i)
        return out


# ----------------------------------------------------------------------- NFA
class NFA:
    def __init__(self, alpha):
        self.alpha = alpha
        self.eps = []      # state -> set(states)
        self.tr = []       # state -> {cls: set(states)}
        self.start = None
        self.finals = set()

    def new(self):
        self.eps.append(set())
        self.tr.append({})
        return len(self.eps) - 1

    def add(self, a, cls, b):
        self.tr[a].setdefault(cls, set()).add(b)

    def build(self, r):
        """returns (s, f) fragment"""
        k = r[0]
        s, f = self.new(), self.new()
        if k == "eps":
            self.eps[s].add(f)
        elif k == "empty":
            pass
        elif k == "set":
            for c in self.alpha.classes_of_mask(r[1]):
                self.add(s, c, f)
        elif k == "cat":
            cur = s
            for x in r[1]:
                a, b = self.build(x)
                self.eps[cur].add(a)
                cur = b
            self.eps[cur].add(f)
        elif k == "alt":
            for x in r[1]:
                a, b = self.build(x)
                self.eps[s].add(a)
                self.eps[b].add(f)
        elif k == "star":
            a, b = self.build(r[1])
            self.eps[s].add(a)
            self.eps[s].add(f)
            self.eps[b].add(a)
            self.eps[b].add(f)
        elif k == "dfa":
            d = r[1]
            base = len(self.eps)
            for _ in range(d.n):
                self.new()
            for q in range(d.n):
                for c in range(self.alpha.n):
                    self.add(base + q, c, base + d.tr[q][c])
                if d.acc[q]:
                    self.eps[base + q].add(f)
            self.eps[s].add(base + d.start)
        else:
            raise ValueError(k)
        return s, f

    def closure(self, states):
        stack = list(states)
        seen = set(states)
        while stack:
            q = stack.pop()
            for t in self.eps[q]:
                if t not in seen:
                    seen.add(t)
                    stack.append(t)
        return frozenset(seen)


class DFA:
    def __init__(self, alpha, tr, acc, start=0):
        self.alpha = alpha
        self.tr = tr
        self.acc = acc
        self.start = start
        self.n = len(tr)

    # -- construction
    @staticmethod
    def from_regex(alpha, r):
        nfa = NFA(alpha)
        s, f = nfa.build(r)
        start = nfa.closure([s])
        index = {start: 0}
        order = [start]
        tr = []
        i = 0
        while i < len(order):
            S = order[i]
            row = []
            for c in range(alpha.n):
                tgt = set()
                for q in S:
                    tgt |= nfa.tr[q].get(c, set())
                T = nfa.closure(tgt)
                if T not in index:
                    index[T] = len(order)
                    order.append(T)
                row.append(index[T])
            tr.append(row)
            i += 1
        acc = [f in S for S in order]
        return DFA(alpha, tr, acc).minimize()

    def minimize(self):
        # remove unreachable, then Moore partition refinement
        reach = [self.start]
        seen = {self.start}
        for q in reach:
            for t in self.tr[q]:
                if t not in seen:
                    seen.add(t)
                    reach.append(t)
        part = {q: int(self.acc[q]) for q in reach}
        while True:
            sig = {}
            newpart = {}
            for q in reach:
                key = (part[q],) + tuple(part[t] for t in self.tr[q])
                if key not in sig:
                    sig[key] = len(sig)
                newpart[q] = sig[key]
            if len(sig) == len(set(part.values())):
                part = newpart
                break
            part = newpart
        # renumber with start = 0
        order = {}
        for q in reach:
            p = part[q]
            if p not in order:
                order[p] = len(order)
        n = len(order)
        tr = [None] * n
        acc = [False] * n
        for q in reach:
            i = order[part[q]]
            if tr[i] is None:
                tr[i] = [order[part[t]] for t in self.tr[q]]
                acc[i] = self.acc[q]
        return DFA(self.alpha, tr, acc, order[part[self.start]])

    # -- boolean algebra
    def complement(self):
        return DFA(self.alpha, self.tr, [not a for a in self.acc], self.start)

    def _product(self, other, op):
        assert self.alpha is other.alpha
        index = {(self.start, other.start): 0}
        order = [(self.start, other.start)]
        tr = []
        i = 0
        while i < len(order):
            a, b = order[i]
            row = []
            for c in range(self.alpha.n):
                t = (self.tr[a][c], other.tr[b][c])
                if t not in index:
                    index[t] = len(order)
                    order.append(t)
                row.append(index[t])
            tr.append(row)
            i += 1
        acc = [op(self.acc[a], other.acc[b]) for a, b in order]
        return DFA(self.alpha, tr, acc).minimize()

    def __and__(self, o):
        return self._product(o, lambda x, y: x and y)

    def __or__(self, o):
        return self._product(o, lambda x, y: x or y)

    def __sub__(self, o):
        return self._product(o, lambda x, y: x and not y)

    def __xor__(self, o):
        return self._product(o, lambda x, y: x != y)

    def is_empty(self):
        return self.shortest() is None

    def shortest(self):
        """shortest accepted byte string (deterministic), or None"""
        prev = {self.start: None}
        queue = [self.start]
        for q in queue:
            if self.acc[q]:
                out = []
                while prev[q] is not None:
                    q, c = prev[q]
                    out.append(self.alpha.rep[c])
                return bytes(reversed(out))
            # deterministic order: by representative byte
            for c in sorted(range(self.alpha.n), key=lambda c: self.alpha.rep[c]):
                t = self.tr[q][c]
                if t not in prev:
                    prev[t] = (q, c)
                    queue.append(t)
        return None

    def accepts(self, bs):
        q = self.start
        for b in bs:
            q = self.tr[q][self.alpha.cls_of[b]]
        return self.acc[q]

    def as_regex(self):
        return ("dfa", self)

    def count_upto(self, k):
        """number of accepted strings of length <= k over the class alphabet (for evidence)"""
        cur = {self.start: 1}
        total = 0
        for _ in range(k + 1):
            total += sum(v for q, v in cur.items() if self.acc[q])
            nxt = {}
            for q, v in cur.items():
                for c in range(self.alpha.n):
                    t = self.tr[q][c]
                    nxt[t] = nxt.get(t, 0) + v
            cur = nxt
        return total


def dfa(alpha, r):
    return DFA.from_regex(alpha, r)


# ------------------------------------------------ preimages of string functions
def no_edge(alpha, S_mask, left=True, right=True):
    """strings that neither start (left) nor end (right) with a byte of S; eps included"""
    notS = rset(FULL & ~S_mask)
    if left and right:
        r = ralt(EPS, notS, rcat(notS, SIGMA_STAR, notS))
    elif left:
        r = ralt(EPS, rcat(notS, SIGMA_STAR))
    else:
        r = ralt(EPS, rcat(SIGMA_STAR, notS))
    return dfa(alpha, r)


def pre_strip(alpha, L, S_mask, left=True, right=True):
    """{ x : strip_S(x) in L }"""
    core = L & no_edge(alpha, S_mask, left, right)
    S = rstar(rset(S_mask))
    return dfa(alpha, rcat(S if left else EPS, core.as_regex(), S if right else EPS))


def not_containing(alpha, sep):
    return dfa(alpha, rcat(SIGMA_STAR, rlit(sep), SIGMA_STAR)).complement()


def first_occurrence_prefixes(alpha, sep):
    """{ u : sep occurs in u.sep first at offset |u| }  (u.sep has no earlier occurrence)"""
    # u.sep contains sep only as its suffix  <=>  u.sep[:-1] does not contain sep
    # language of w = u.sep[:-1] = u . sep[:-1] with 'sep not in w'
    if len(sep) == 1:
        return not_containing(alpha, sep)
    nc = not_containing(alpha, sep)
    # u such that u.sep[:-1] in nc : right quotient by the literal sep[:-1]
    return right_quotient_literal(alpha, nc, sep[:-1])


def right_quotient_literal(alpha, L, lit):
    """{ u : u.lit in L }"""
    acc = []
    for q in range(L.n):
        t = q
        for b in lit:
            t = L.tr[t][alpha.cls_of[b]]
        acc.append(L.acc[t])
    return DFA(alpha, L.tr, acc, L.start).minimize()


def pre_before_first(alpha, L, sep):
    """{ x : sep in x and x[:x.find(sep)] in L }"""
    u = L & first_occurrence_prefixes(alpha, sep)
    return dfa(alpha, rcat(u.as_regex(), rlit(sep), SIGMA_STAR))


def pre_from_first(alpha, L, sep, skip):
    """{ x : sep in x and x[x.find(sep)+skip:] in L }   (skip in 0..len(sep))"""
    u = first_occurrence_prefixes(alpha, sep)
    if skip == 0:
        tail = L & dfa(alpha, rcat(rlit(sep), SIGMA_STAR))
        return dfa(alpha, rcat(u.as_regex(), tail.as_regex()))
    if skip == len(sep):
        return dfa(alpha, rcat(u.as_regex(), rlit(sep), L.as_regex()))
    raise Unsupported("partial separator skip")
