"""Access to the real source tree: AST of every waitress module (re-read on every
run), lookup of functions by qualified name, and the *running* modules (imported
from the same tree) for compiled patterns and module constants."""
import ast
import hashlib
import importlib
import os
import sys


class Repo:
    def __init__(self, root="/repo"):
        self.root = os.path.abspath(root)
        self.src = os.path.join(self.root, "src")
        self._ast = {}
        self._text = {}
        self._mods = {}

    def path(self, mod):
        if mod.startswith("lemma_"):
            # lemma functions over contracts live with the verification machinery, not in the repository
            return os.path.join(os.path.dirname(os.path.dirname(os.path.abspath(__file__))), "lemmas", mod + ".py")
        return os.path.join(self.src, "waitress", mod + ".py")

    def text(self, mod):
        if mod not in self._text:
            with open(self.path(mod), encoding="utf-8") as f:
                self._text[mod] = f.read()
        return self._text[mod]

    def tree(self, mod):
        if mod not in self._ast:
            self._ast[mod] = ast.parse(self.text(mod), filename=self.path(mod))
        return self._ast[mod]

    def sha(self, mod):
        return hashlib.sha256(self.text(mod).encode()).hexdigest()[:16]

    def find(self, qual):
        """qual = 'parser.HTTPRequestParser.received' or 'parser.get_header_lines' or
        'task.WSGITask.execute.<start_response>'; returns the FunctionDef/ClassDef or None"""
        parts = qual.split(".")
        if not os.path.exists(self.path(parts[0])):
            return None
        node = self.tree(parts[0])
        for p in parts[1:]:
            name = p.strip("<>")
            found = None
            body = node.body
            # search also inside `if` blocks at module level (e.g. `if hasattr(socket, "AF_UNIX"):`)
            stack = list(body)
            while stack:
                n = stack.pop(0)
                if isinstance(n, (ast.FunctionDef, ast.ClassDef)) and n.name == name:
                    found = n
                    break
                if isinstance(n, (ast.If, ast.Try)) and not isinstance(node, ast.FunctionDef):
                    stack = list(n.body) + list(getattr(n, "orelse", [])) + stack
                if isinstance(node, ast.FunctionDef) and isinstance(n, (ast.If, ast.Try, ast.With, ast.For, ast.While)):
                    stack = list(n.body) + stack
            if found is None:
                return None
            node = found
        return node

    def func_source_hash(self, qual):
        node = self.find(qual)
        if node is None:
            return None
        seg = ast.get_source_segment(self.text(qual.split(".")[0]), node) or ""
        return hashlib.sha256(seg.encode()).hexdigest()[:16]

    def module(self, mod):
        """import waitress.<mod> from THIS tree (in-process)."""
        if mod not in self._mods:
            if sys.path[0] != self.src:
                sys.path.insert(0, self.src)
                for k in [k for k in sys.modules if k == "waitress" or k.startswith("waitress.")]:
                    del sys.modules[k]
            m = importlib.import_module("waitress." + mod)
            assert os.path.abspath(m.__file__).startswith(self.src), m.__file__
            self._mods[mod] = m
        return self._mods[mod]

    def class_bases(self, mod, cls):
        node = self.find(mod + "." + cls)
        return [ast.unparse(b) for b in node.bases] if node else []


def functions_in(node):
    """yield (qualname-suffix, FunctionDef) for all functions under a class/module node"""
    for n in node.body:
        if isinstance(n, ast.FunctionDef):
            yield n.name, n
        elif isinstance(n, ast.ClassDef):
            for q, f in functions_in(n):
                yield n.name + "." + q, f
