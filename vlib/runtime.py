"""Thorough tier: evaluate the sidecar contracts at run time on every call the repository's own test-suite makes
(replay/runtime_monitor.py, a pytest plugin under the suite's interpreter, against the tree under check).
A clause that fires on a real execution although its obligation is discharged is a verifier/model mismatch or a too-strict
contract: the check reports it as UNDECIDED with the witness, never as a pass."""
import json
import os
import subprocess
import sys
import tempfile

from .report import NATIVE_PY, VERIF


def run_monitor(ck, prefixes, timeout=1500):
    tmp = tempfile.mkdtemp(prefix="verif-monitor-")
    cj, out = os.path.join(tmp, "contracts.json"), os.path.join(tmp, "monitor.json")
    try:
        p = subprocess.run([sys.executable, os.path.join(VERIF, "tools", "export_contracts.py"), cj], capture_output=True, text=True, timeout=300,
                           env=dict(os.environ, VERIF_EXPORT_REPO=ck.repo.root))
        if p.returncode != 0:
            return {"error": "export failed: " + p.stderr[-500:]}
        env = dict(os.environ, WAITRESS_CONTRACTS=cj, WAITRESS_MONITOR_OUT=out, PYTHONPATH=ck.repo.src + os.pathsep + os.path.join(VERIF, "replay"), WAITRESS_VERIF="1")
        p = subprocess.run([NATIVE_PY, "-m", "pytest", "-q", "-p", "no:cacheprovider", "-p", "runtime_monitor", "--no-cov", "--timeout=900", "tests"],
                           cwd="/repo", capture_output=True, text=True, timeout=timeout, env=env)
        if not os.path.exists(out):
            return {"error": "monitor produced no output", "pytest_tail": p.stdout[-500:]}
        d = json.load(open(out))
    finally:
        import shutil
        shutil.rmtree(tmp, ignore_errors=True)
    cl = {k: v for k, v in d["clauses"].items() if k.startswith(tuple(prefixes))}
    fails = [f for f in d["failures"] if f["clause"].startswith(tuple(prefixes))]
    summary = {"clauses": len(cl), "evaluations_held": sum(v["held"] for v in cl.values()), "evaluations_failed": sum(v["failed"] for v in cl.values()),
               "preconditions_unmet_by_test_setups": sum(v["unmet"] for v in cl.values()), "not_evaluable": sum(v["not_evaluable"] for v in cl.values()),
               "pytest": p.stdout.strip().splitlines()[-1] if p.stdout.strip() else "", "failures": fails[:10]}
    ck.extra["runtime_monitor"] = summary
    for f in fails[:5]:
        ck.ob("%s/runtime-monitor" % f["clause"], "undecided", kind="runtime", clause=f["text"],
              detail={"reason": "run-time monitor: the clause was false on a real execution made by the test-suite (verifier/model mismatch or too-strict contract)", "witness": f})
    return summary
