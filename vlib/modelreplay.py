"""Replay of a solver counter-model on the real code.

A refuted `ensures` / `raises` obligation of a method comes with a model of the symbolic ENTRY state (one value per
declared field of self, per parameter).  For the classes listed in replay/model_replay.py (plain state machines:
receivers, the parser in its head phase, the buffers) the entry state is rebuilt as a real object under the suite's
interpreter, the real method is called and the failed clause is evaluated natively on the before/after snapshots.
reproduced=True only if the clause is natively false (or the undeclared exception really escapes): then the VIOLATION
line carries a failing input.  A model taken from a loop-cut path (arbitrary iteration) may not reproduce: then the
verdict falls back to the obligation lock, with no input."""
import re

BUILDABLE = {"receiver.ChunkedReceiver", "receiver.FixedStreamReceiver", "parser.HTTPRequestParser", "buffers.OverflowableBuffer",
             "buffers.FileBasedBuffer", "buffers.BytesIOBasedBuffer", "buffers.TempfileBasedBuffer", "buffers.ReadOnlyFileBasedBuffer"}


def entry_values(model):
    """base name -> value of the FIRST variable created under that name (the entry state is created before anything else)"""
    best = {}
    for k, v in model.items():
        m = re.match(r"^(.*)!(\d+)$", k)
        if not m:
            continue
        base, idx = m.group(1), int(m.group(2))
        if base not in best or idx < best[base][0]:
            best[base] = (idx, v)
    return {b: v for b, (i, v) in best.items()}


def make_replayer(ck, mods):
    from . import world
    reg = world.build_registry(ck.repo.root, mods)

    def typed(ty, base, ev):
        """JSON-able description of the entry value of a location of declared type ty"""
        if ty is None:
            return None
        k = ty[0]
        if k in ("int",):
            return {"t": "int", "v": int(ev.get(base, 0) or 0)}
        if k == "bool":
            return {"t": "bool", "v": bool(ev.get(base, False))}
        if k in ("bytes", "str", "str1"):
            v = ev.get(base, "")
            return {"t": "bytes" if k == "bytes" else "str", "v": [ord(c) for c in (v if isinstance(v, str) else "")]}
        if k == "opt":
            isnone = ev.get(base + "_isnone", True)
            return {"t": "none"} if isnone else typed(ty[1], base, ev)
        if k == "obj":
            spec = reg.class_spec(ty[1])
            fields = {}
            if spec is not None:
                for f, fty in spec.fields.items():
                    fields[f] = typed(fty, base + "." + f, ev)
                for gp in getattr(spec, "ghost_props", {}) or {}:
                    pass
            # abstract view of a buffer object
            if (base + ".view") in ev:
                fields["view"] = {"t": "bytes", "v": [ord(c) for c in ev[base + ".view"]]}
            return {"t": "obj", "cls": ty[1], "fields": fields}
        if k == "oneof":
            alts = ty[1]
            idx = next((i for i in range(len(alts)) if ev.get("%s_is_%d" % (base, i)) is True), len(alts) - 1 if ev.get(base + "_is_0") is False else 0)
            return typed(alts[min(idx, len(alts) - 1)], base, ev)
        return {"t": "opaque"}

    def replayer(name, rec, model):
        if rec["kind"] not in ("ensures", "raises") or not model:
            return None
        label = name.split("/")[0]
        qual = label.split("@")[0].split("[")[0]
        cls = ".".join(qual.split(".")[:-1])
        if qual.count(".") == 1:
            # a module-level function over plain values (bytes / str / int / bool parameters)
            con = reg.contract(qual)
            if con is None or not con.params or any(t[0] not in ("int", "bool", "bytes", "str", "str1") for t in con.params.values()):
                return None
            ev = entry_values(model)
            payload = {"func": qual, "args": {p: typed(pty, p, ev) for p, pty in con.params.items()}, "kind": rec["kind"], "clause": rec["clause"],
                       "exc": name.rsplit("raises:", 1)[1] if rec["kind"] == "raises" else None}
            rep = ck.native("function_replay", payload, timeout=60, module="model")
            if isinstance(rep, dict):
                rep["payload"] = payload
            return rep
        if cls not in BUILDABLE:
            return None
        con = reg.contract(qual)
        spec = reg.class_spec(cls)
        if con is None or spec is None:
            return None
        ev = entry_values(model)
        fields = {f: typed(fty, "self." + f, ev) for f, fty in spec.fields.items()}
        args = {p: typed(pty, p, ev) for p, pty in (con.params or {}).items()}
        payload = {"cls": cls, "method": qual.split(".")[-1], "fields": fields, "args": args, "kind": rec["kind"], "clause": rec["clause"],
                   "exc": name.rsplit("raises:", 1)[1] if rec["kind"] == "raises" else None}
        rep = ck.native("model_replay", payload, timeout=60, module="model")
        if isinstance(rep, dict):
            rep["payload"] = payload
        return rep

    return replayer
