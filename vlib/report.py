"""Run bookkeeping shared by all property checks: obligations, known findings,
replay files, VIOLATION / KNOWN-FINDING lines, evidence JSON, exit codes.

Exit codes (DESIGN section 4): 0 held / 1 violation / 2 undecided / 3 checker crash.
"""
import argparse
import json
import os
import re
import subprocess
import sys
import time

VERIF = os.path.dirname(os.path.dirname(os.path.abspath(__file__)))
EVID = os.path.join(VERIF, "evidence")
REPLAY = os.path.join(EVID, "replay")
NATIVE_PY = "/venv/bin/python"


def _slug(s):
    return re.sub(r"[^A-Za-z0-9_.-]+", "_", s)[:150]


def b2s(b):
    """bytes -> printable python-literal-ish string for JSON"""
    if isinstance(b, (bytes, bytearray)):
        return repr(bytes(b))
    return b


class Ob:
    __slots__ = ("name", "status", "backend", "secs", "kind", "clause", "detail", "queries")

    def __init__(self, name, status, backend="", secs=0.0, kind="deductive", clause="", detail=None, queries=1):
        self.name, self.status, self.backend, self.secs = name, status, backend, secs
        self.kind, self.clause, self.detail, self.queries = kind, clause, detail, queries

    def as_json(self):
        d = {"name": self.name, "status": self.status, "backend": self.backend,
             "solver_s": round(self.secs, 4), "kind": self.kind}
        if self.clause:
            d["clause"] = self.clause
        if self.queries != 1:
            d["path_queries"] = self.queries
        if self.detail:
            d["detail"] = self.detail
        return d


class Check:
    def __init__(self, prop, argv=None, level="proof"):
        ap = argparse.ArgumentParser(prog="check " + prop)
        ap.add_argument("--tier", default=os.environ.get("VERIF_TIER", "quick"), choices=["quick", "thorough"])
        ap.add_argument("--repo", default=os.environ.get("VERIF_REPO", "/repo"))
        ap.add_argument("--replay", default=None)
        ap.add_argument("--no-evidence", action="store_true")
        ap.add_argument("-v", "--verbose", action="store_true")
        self.args = ap.parse_args(argv)
        self.prop = prop
        self.tier = self.args.tier
        try:
            self.seed = int(os.environ.get("VERIF_SEED", "0"))
        except ValueError:
            self.seed = 0
        self.level = level
        self.t0 = time.time()
        self.obs = []
        self.violations = []
        self.known_hits = []
        self.undecided = []
        self.pending_internal = []      # refuted proof-internal obligations (see vlib/world.py), settled in finish()
        self.bounded = []
        self.finite = []
        self.samples = []
        self.functions = []
        self.trusted = []
        self.assumptions = []
        self.notes = []
        self.extra = {}
        from .source import Repo
        self.repo = Repo(self.args.repo)
        with open(os.path.join(VERIF, "known_findings.json")) as f:
            self.kf = [e for e in json.load(f)["findings"] if e["property"] == prop]
        if getattr(self.args, "no_evidence", False):
            # trial runs (seeded changes, scratch trees) must not leave replay files among the committed evidence
            import tempfile
            self.replay_dir = tempfile.mkdtemp(prefix="verif-replay-%s-" % prop)
        else:
            self.replay_dir = REPLAY
            os.makedirs(REPLAY, exist_ok=True)
            for fn in os.listdir(REPLAY):            # this run's replay files replace the previous run's
                if fn.startswith(prop + "_"):
                    os.unlink(os.path.join(REPLAY, fn))

    # ------------------------------------------------------------ logging
    def log(self, *a):
        if self.args.verbose:
            print(*a, file=sys.stderr, flush=True)

    # ------------------------------------------------------ obligations
    def ob(self, name, status, **kw):
        """status: discharged | violated | known-finding | undecided"""
        o = Ob(self.prop + "/" + name, status, **kw)
        self.obs.append(o)
        if status == "undecided":
            self.undecided.append(o)
        self.log("  [%s] %s (%s %.2fs)" % (status, o.name, o.backend, o.secs))
        return o

    def under_contract(self, qual, role=""):
        h = self.repo.func_source_hash(qual)
        self.functions.append({"function": qual, "file": "src/waitress/%s.py" % qual.split(".")[0],
                               "source_sha": h, "role": role})
        return h is not None

    def known_for(self, obname):
        full = self.prop + "/" + obname
        return [e for e in self.kf if e["obligation"] == full]

    # --------------------------------------------------------- failures
    def fail(self, obname, key, what, replay=None, reproduced=False):
        """An obligation failed with failure key `key` (witness class / call site).
        Returns 'known' or 'violation'."""
        full = self.prop + "/" + obname
        for e in self.kf:
            if e["obligation"] == full and e["key"] == key and e["status"] == "known":
                line = "KNOWN-FINDING: property=%s %s [%s] %s" % (self.prop, full, e["id"], e["what"])
                print(line, flush=True)
                path = self._write_replay(full, key, what, replay, reproduced, known=e["id"])
                self.known_hits.append({"id": e["id"], "obligation": full, "key": key, "replay": os.path.relpath(path, VERIF)})
                return "known"
        path = self._write_replay(full, key, what, replay, reproduced)
        line = "VIOLATION property=%s replay=%s" % (self.prop, path)
        if not reproduced:
            line += " no-failing-input-found"
        print(line, flush=True)
        print("  obligation: %s\n  what: %s" % (full, what), flush=True)
        self.violations.append({"obligation": full, "key": key, "what": what, "replay": path, "reproduced": reproduced})
        return "violation"

    def _write_replay(self, full, key, what, replay, reproduced, known=None):
        os.makedirs(self.replay_dir, exist_ok=True)
        path = os.path.join(self.replay_dir, _slug(full + "--" + key) + ".json")
        doc = {"property": self.prop, "obligation": full, "failure_key": key, "what": what,
               "reproduced_natively": reproduced, "repo": self.repo.root}
        if known:
            doc["known_finding"] = known
        if replay:
            doc.update(replay)
        with open(path, "w") as f:
            json.dump(doc, f, indent=1, default=b2s)
        return path

    # ---------------------------------------------------------- native
    def native(self, routine, payload, timeout=120, module=None):
        """Run a replay routine of /verif/replay/<prop>_replay.py under the suite's
        interpreter against THIS repo tree. Returns the routine's JSON result."""
        env = dict(os.environ)
        env["PYTHONPATH"] = self.repo.src
        env["WAITRESS_VERIF"] = "1"
        cmd = [NATIVE_PY, os.path.join(VERIF, "replay", "driver.py"), module or self.prop, routine]
        try:
            p = subprocess.run(cmd, input=json.dumps(payload), capture_output=True, text=True, env=env, timeout=timeout, cwd="/")
        except subprocess.TimeoutExpired:
            return {"error": "timeout"}
        if p.returncode != 0:
            return {"error": "native replay crashed", "stderr": p.stderr[-2000:]}
        try:
            return json.loads(p.stdout.strip().splitlines()[-1])
        except Exception:
            return {"error": "unparsable native output", "stdout": p.stdout[-2000:], "stderr": p.stderr[-2000:]}

    # ----------------------------------------------------------- finish
    def finish(self, explanation, checker_cmd=None):
        for name, what, payload, backend, secs, clause, paths, model in self.pending_internal:
            if self.violations:
                self.fail(name, "refuted", what + "  [proof-internal obligation; reported because a property clause / stand-in of this check fails too]",
                          replay=payload, reproduced=False)
                self.ob(name, "violated", backend=backend, secs=secs, clause=clause, queries=paths, detail={"model": model})
            else:
                self.ob(name, "undecided", backend=backend, secs=secs, clause=clause, queries=paths,
                        detail={"reason": "proof-internal obligation (loop invariant / cut assertion tied to the shape of the code) refuted, while every property "
                                          "clause of this check is discharged and no stand-in fails: the proof needs adjusting to the new code shape; this is "
                                          "not evidence that the property is broken", "model": model})
        self.pending_internal = []
        wall = time.time() - self.t0
        ded = [o for o in self.obs if o.kind == "deductive"]
        n_ob = len(ded)
        n_dis = sum(1 for o in ded if o.status == "discharged")
        level = self.level
        if level == "proof" and (n_dis != n_ob or n_ob == 0 or self.known_hits):
            level = "other"       # a recorded finding of this property is present on this tree: the property is not proved
        by_backend = {}
        for o in ded:
            b = by_backend.setdefault(o.backend or "-", {"obligations": 0, "solver_s": 0.0})
            b["obligations"] += 1
            b["solver_s"] = round(b["solver_s"] + o.secs, 4)
        cov = {
            "obligations": n_ob,
            "discharged": n_dis,
            "checker_cmd": checker_cmd or ("./check %s --tier %s" % (self.prop, self.tier)),
            "trusted_base": self.trusted,
            "explanation": explanation,
            "functions_under_contract": self.functions,
            "by_backend": by_backend,
            "solver_s_total": round(sum(o.secs for o in ded), 3),
            "obligation_list": [o.as_json() for o in self.obs],
            "known_findings_present": self.known_hits,
            "undecided": [o.name for o in self.undecided],
            "bounded_standins": self.bounded,
            "finite_tables": self.finite,
            "samples": self.samples or [o.as_json() for o in self.obs[:3]],
            "notes": self.notes,
        }
        cov.update(self.extra)
        if self.bounded:
            cov["evaluations"] = sum(b.get("evaluations", 0) for b in self.bounded)
        doc = {"property_id": self.prop, "tier": self.tier, "seed": self.seed, "level": level,
               "coverage": cov, "assumptions": self.assumptions, "wall_s": round(wall, 3),
               "violations": len(self.violations)}
        if not self.args.no_evidence:
            os.makedirs(EVID, exist_ok=True)
            with open(os.path.join(EVID, self.prop + ".json"), "w") as f:
                json.dump(doc, f, indent=1, default=b2s)
        summary = "%s: %d obligations, %d discharged, %d known-finding, %d violated, %d undecided; %d bounded stand-ins; %.1fs" % (
            self.prop, n_ob, n_dis, len(self.known_hits), len(self.violations), len(self.undecided), len(self.bounded), wall)
        print(summary, flush=True)
        if self.violations:
            return 1
        if n_ob == 0:
            print("UNDECIDED: no obligations generated (vacuity guard)", flush=True)
            return 2
        if self.undecided:
            for o in self.undecided:
                print("UNDECIDED: %s %s" % (o.name, (o.detail or {}).get("reason", "")), flush=True)
            return 2
        return 0


def run_check(fn):
    """wrap a property's main(): crash -> exit 3 (never 1)"""
    try:
        rc = fn()
    except SystemExit:
        raise
    except BaseException:
        import traceback
        traceback.print_exc()
        print("CHECKER-CRASH (exit 3): not a verdict about the property", flush=True)
        sys.exit(3)
    sys.exit(rc)
