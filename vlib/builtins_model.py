"""Call dispatch and the assumed contracts of CPython builtins / stdlib used by
waitress (DESIGN.md section 2.4).  Every entry here is part of the trusted base;
exceptional behaviour of a builtin is modelled as a fork (raise / no raise)."""
import ast

import z3

from .pyvc import (VSet, VSeq, BUILTIN_EXC, NONE, DictModel, Frame, ListModel, OutOfSubset, PathEnd, RaiseSig, ReturnSig, VBool, VClass, VDict, VExc,
                   VFunc, VInt, VList, VModule, VNone, VObj, VOpaque, VOpt, VStr, VTuple, is_true, simp)

BYTES_WS = b" \t\n\r\x0b\x0c"
STR_WS_L1 = "".join(chr(c) for c in range(256) if chr(c).isspace())

F_LOWER = z3.Function("py_lower", z3.StringSort(), z3.StringSort())
F_UPPER = z3.Function("py_upper", z3.StringSort(), z3.StringSort())
F_CAPITALIZE = z3.Function("py_capitalize", z3.StringSort(), z3.StringSort())
F_REPLACE = z3.Function("py_replace_all", z3.StringSort(), z3.StringSort(), z3.StringSort(), z3.StringSort())
F_INT_OK = {10: z3.Function("py_int_ok_10", z3.StringSort(), z3.BoolSort()), 16: z3.Function("py_int_ok_16", z3.StringSort(), z3.BoolSort()),
            8: z3.Function("py_int_ok_8", z3.StringSort(), z3.BoolSort())}
F_INT = {10: z3.Function("py_int_10", z3.StringSort(), z3.IntSort()), 16: z3.Function("py_int_16", z3.StringSort(), z3.IntSort()),
         8: z3.Function("py_int_8", z3.StringSort(), z3.IntSort())}
F_HEXDIGITS = z3.Function("py_hexdigits", z3.IntSort(), z3.StringSort())     # hex(n)[2:] for n >= 0
F_UNQUOTE = z3.Function("py_unquote_to_bytes", z3.StringSort(), z3.StringSort())


def strval(v):
    s = simp(v.t)
    if z3.is_string_value(s):
        return _z3str(s)
    return None


def _z3str(s):
    """python str of a z3 string value (undo z3's \\u{..} escapes)"""
    import re
    txt = s.as_string()
    return re.sub(r"\\u\{([0-9a-fA-F]+)\}", lambda m: chr(int(m.group(1), 16)), txt)


def intval(v):
    s = simp(v.t)
    if z3.is_int_value(s):
        return s.as_long()
    return None


INSTALLING_SPECS = {"all_elems", "dict_empty"}


def spec_dict_empty(eng, d):
    """dict_empty(d): d has no entries.  In assume position an open symbolic dict becomes the closed empty dict."""
    d = eng.force(d)
    m = eng.state.dicts[d.did]
    if not m.open and not getattr(m, "sym_entries", None):
        ps = [p for p, _ in m.entries.values()]
        return VBool(z3.Not(z3.Or(ps)) if ps else z3.BoolVal(True))
    if getattr(eng, "assuming", False):
        if m.entries or getattr(m, "sym_entries", None):
            ps = [p for p, _ in m.entries.values()]
            eng.assume(z3.Not(z3.Or(ps)) if ps else z3.BoolVal(True))
        eng.state.dicts[d.did] = DictModel({}, False, m.make_val, m.tag)
        return VBool(True)
    return VBool(False)


def spec_all_elems(eng, lst, predname):
    """all_elems(xs, 'pred'): every element of xs satisfies the registered element predicate.
    In assume position it installs the fact on the list; in proof position it is true only if the
    fact is already tracked (maintained by obligations at every append / store) or the spine is concrete."""
    name = strval(predname)
    pred = eng.reg.elem_preds[name]
    lst = eng.force(lst)
    if isinstance(lst, VNone):
        return VBool(True)        # a local that was never bound on this path (final('x')): no elements
    m = eng.state.lists[lst.lid]
    if m.items is not None:
        ts = [pred(eng, eng.force(x)) for x in m.items]
        return VBool(z3.And(ts) if ts else z3.BoolVal(True))
    have = any(getattr(f, "pred_name", None) == name for f in m.elem_facts)
    if have:
        return VBool(True)
    if getattr(eng, "assuming", False):
        f = lambda e, x, _p=pred: _p(e, e.force(x))
        f.pred_name = name
        m.elem_facts.append(f)
        return VBool(True)
    return VBool(False)


# ===================================================================== dispatch
def call_dispatch(eng, node, fr):
    # spec-only forms
    if isinstance(node.func, ast.Name) and getattr(fr, "is_spec", False):
        nm = node.func.id
        if nm == "old":
            old = getattr(fr, "old_state", None)
            if old is None:
                raise OutOfSubset("old() without a pre-state", node)
            cur = eng.state
            saved_pc = cur.pc
            tmp = old.snapshot()
            tmp.pc = cur.pc          # path condition is shared; only the store is the old one
            eng.state = tmp
            saved_env = fr.env
            if getattr(fr, "old_env", None):
                fr.env = dict(fr.env)
                fr.env.update(fr.old_env)
            try:
                return eng.eval(node.args[0], fr)
            finally:
                fr.env = saved_env
                cur.pc = tmp.pc
                eng.state = cur
        if nm == "implies":
            a = eng.truth(eng.eval(node.args[0], fr))
            if is_true(z3.Not(a)):
                return VBool(True)
            if getattr(eng, "assuming", False) and any(isinstance(n, ast.Call) and isinstance(n.func, ast.Name) and n.func.id in INSTALLING_SPECS
                                                       for n in ast.walk(node.args[1])):
                # the consequent refines the shape of a container: only sound where the antecedent holds -> fork
                if eng.branch(a):
                    return VBool(eng.truth(eng.eval(node.args[1], fr)))
                return VBool(True)
            # evaluate consequent under the assumption (its partial operations may need it)
            mark = len(eng.state.pc)
            eng.state.pc.append(a)
            dec_mark = (len(eng.decisions), eng.pos)
            try:
                b = eng.truth(eng.eval(node.args[1], fr))
            except PathEnd as pe:
                if pe.why != "infeasible":
                    raise
                # the antecedent is unsatisfiable under the path condition: the implication holds
                del eng.decisions[dec_mark[0]:]
                eng.pos = dec_mark[1]
                return VBool(True)
            finally:
                del eng.state.pc[mark:]
            return VBool(z3.Implies(a, b))
        if nm == "ite":
            c = eng.truth(eng.eval(node.args[0], fr))
            a = eng.force(eng.eval(node.args[1], fr))
            b = eng.force(eng.eval(node.args[2], fr))
            if isinstance(a, VInt):
                return VInt(z3.If(c, a.t, b.t))
            if isinstance(a, VStr):
                return VStr(z3.If(c, a.t, b.t), a.bytes)
            if isinstance(a, VBool):
                return VBool(z3.If(c, a.t, b.t))
            raise OutOfSubset("ite on %r" % (a,), node)
    f = eng.eval(node.func, fr)
    args = []
    for a in node.args:
        if isinstance(a, ast.Starred):
            v = eng.force(eng.eval(a.value, fr))
            if isinstance(v, VTuple):
                args.extend(v.items)
            elif isinstance(v, VList) and eng.state.lists[v.lid].items is not None:
                args.extend(eng.state.lists[v.lid].items)
            else:
                raise OutOfSubset("star-args over abstract value", node)
        else:
            args.append(eng.eval(a, fr))
    kwargs = {}
    for kw in node.keywords:
        if kw.arg is None:
            raise OutOfSubset("**kwargs call", node)
        kwargs[kw.arg] = eng.eval(kw.value, fr)
    return call_value(eng, f, args, kwargs, node, fr)


def call_value(eng, f, args, kwargs, node, fr):
    f = eng.force(f)
    if isinstance(f, VFunc):
        k = f.kind
        if k in ("function", "method", "unbound"):
            if k == "method":
                args = [f.recv] + list(args)
            qual = f.name
            eng.emit("call", qual=qual, args=args, kwargs=kwargs, node=node, frame=fr)
            con = eng.reg.contract(qual)
            if k == "method" and isinstance(f.recv, VObj):
                # a contract stated for the receiver's own class overrides the inherited one
                con = eng.reg.contract(f.recv.cls + "." + f.attr) or con
            if con is not None and not con.inline and "inline-on-constants" in con.props and all_concrete(eng, args[1:] if k == "method" else args):
                eng.emit("inline_concrete", qual=qual, node=node)
                return eng.call_function_node(qual.split(".")[0], qual, f.node, args, dict(kwargs), node, fr)
            if con is not None and not con.inline and qual != eng.cur_func_qual():
                from .contract import apply_contract
                return apply_contract(eng, con, f.node, args, kwargs, node, fr)
            if con is None and qual not in eng.reg.inline and not eng.reg.inline_all:
                # a waitress function nobody wrote a contract for (e.g. a helper extracted by a refactoring): execute its body in
                # place -- that is exact, only more expensive than a contract -- and say so in the evidence
                note = "inlined without a contract: %s" % qual
                if note not in eng.notes:
                    eng.notes.append(note)
            modname = qual.split(".")[0]
            return eng.call_function_node(modname, qual, f.node, args, dict(kwargs), node, fr)
        if k == "closure":
            eng.emit("call", qual=f.name, args=args, kwargs=kwargs, node=node, frame=fr)
            con = eng.reg.contract(f.name)
            if con is not None and not con.inline and f.name != eng.cur_func_qual():
                from .contract import apply_contract
                return apply_contract(eng, con, f.node, args, kwargs, node, fr, extra_env={"self": f.frame.self_val} if con.closure_self else None)
            return eng.call_function_node(f.modname, f.name, f.node, args, dict(kwargs), node, fr, closure_frame=f.frame)
        if k == "lambda":
            env = dict(f.frame.env)
            params = [p.arg for p in f.node.args.args]
            for p, v in zip(params, args):
                env[p] = v
            return eng.eval(f.node.body, Frame(f.frame.modname, f.frame.qual, env, f.frame.self_val))
        if k == "namedtuple":
            o = eng.new_obj(f.name)
            vals = list(args) + [kwargs[n] for n in f.fields[len(args):]]
            for n, v in zip(f.fields, vals):
                eng.state.heap[(o.oid, n)] = v
            return o
        if k == "builtin":
            fn = BUILTINS.get(f.name)
            if fn is None:
                raise OutOfSubset("builtin %s" % f.name, node)
            return fn(eng, args, kwargs, node, fr)
        if k == "bound-builtin":
            return call_bound_builtin(eng, f.recv, f.attr, args, kwargs, node, fr)
        if k == "external":
            ext = eng.reg.externals.get(f.name) or EXTERNALS.get(f.name)
            if ext is None:
                raise OutOfSubset("external call %s" % f.name, node)
            eng.emit("external_call", name=f.name, args=args, node=node, frame=fr)
            return ext(eng, args, kwargs, node, fr)
        if k == "env":
            return call_env(eng, f.spec, f.recv, f.name, args, kwargs, node, fr)
        if k == "spec":
            return f.fn(eng, *args, **kwargs)
    if isinstance(f, VClass):
        return construct(eng, f, args, kwargs, node, fr)
    if isinstance(f, VOpaque):
        spec = eng.reg.demonic.get("call:" + f.tag)
        if spec is not None:
            return call_env(eng, spec, f, f.tag, args, kwargs, node, fr)
        raise OutOfSubset("call of opaque %s" % f.tag, node)
    raise OutOfSubset("call of %r" % (f,), node)


def all_concrete(eng, args):
    for a in args:
        a = eng.force(a)
        if isinstance(a, VStr):
            if strval(a) is None:
                return False
        elif isinstance(a, VInt):
            if intval(a) is None:
                return False
        elif isinstance(a, (VNone,)):
            continue
        elif isinstance(a, VBool):
            if not (is_true(a.t) or is_true(z3.Not(a.t))):
                return False
        else:
            return False
    return True


def call_env(eng, spec, recv, name, args, kwargs, node, fr):
    """demonic environment operation"""
    eng.emit("env_call", name=name, recv=recv, args=args, node=node, frame=fr, spec=spec)
    if getattr(spec, "effect_first", False) and spec.effect:
        spec.effect(eng, recv, args, None)
    for exc in spec.raises:
        if eng.branch(eng.fresh_bool("env_raises_" + exc.split(".")[-1].split(":")[0]).t):
            eng.emit("env_raise", tag=name, exc=exc, node=node)
            # an OSError from the environment carries an arbitrary errno as args[0]
            raise RaiseSig(VExc(exc, [eng.fresh_int("errno")] if exc == "OSError" else []))
    result = eng.fresh_of_type(spec.returns, "env_" + name.split(".")[-1]) if spec.returns is not None else NONE
    env = {"result": result, "self": recv}
    for p, a in zip(spec.params, args):
        env[p] = a
    for text in spec.ensures:
        eng.assume(eng.truth(eng.eval_spec(text, env)))
    if spec.effect and not getattr(spec, "effect_first", False):
        r = spec.effect(eng, recv, args, result)
        if r is not None:
            result = r
    return result


def construct(eng, cls, args, kwargs, node, fr):
    q = cls.qual
    if q in BUILTIN_EXC or q.split(":")[0] in BUILTIN_EXC:
        return VExc(q, args)
    if "." in q and eng.class_node(q) is not None:
        if eng.exc_is_subclass(q, "BaseException") and not eng.find_method(q, "__init__"):
            return VExc(q, args)
        obj = eng.new_obj(q)
        eng.emit("construct", cls=q, obj=obj, node=node, frame=fr)
        init = eng.find_method(q, "__init__")
        if init is not None:
            c, fn = init
            qual = c + ".__init__"
            con = eng.reg.contract(qual)
            if con is not None and not con.inline:
                from .contract import apply_contract
                apply_contract(eng, con, fn, [obj] + list(args), kwargs, node, fr)
            else:
                if con is None and qual not in eng.reg.inline and not eng.reg.inline_all:
                    raise OutOfSubset("constructor %s: no contract and not inline" % qual, node)
                eng.call_function_node(c.split(".")[0], qual, fn, [obj] + list(args), dict(kwargs), node, fr)
        if eng.exc_is_subclass(q, "BaseException"):
            return VExc(q, args, obj=obj)
        return obj
    raise OutOfSubset("construct %s" % q, node)


# ===================================================================== builtins
def b_len(eng, args, kwargs, node, fr):
    v = eng.force(args[0])
    return VInt(length_of(eng, v, node))


def length_of(eng, v, node=None):
    if isinstance(v, VStr):
        return z3.Length(v.t)
    if isinstance(v, VTuple):
        return z3.IntVal(len(v.items))
    if isinstance(v, VList):
        m = eng.state.lists[v.lid]
        return z3.IntVal(len(m.items)) if m.items is not None else m.length
    if isinstance(v, VSet):
        return eng.state.sets[v.sid][1]
    if isinstance(v, VSeq):
        return z3.Length(v.t)
    if isinstance(v, VDict):
        m = eng.state.dicts[v.did]
        if not m.open:
            return z3.Sum([z3.If(p, 1, 0) for p, _ in m.entries.values()]) if m.entries else z3.IntVal(0)
        n = eng.fresh_int("dictlen")
        eng.assume(n.t >= 0)
        return n.t
    if isinstance(v, VObj):
        r = eng.force(eng.call_method(v, "__len__", [], {}, node))
        return r.t
    if isinstance(v, VOpaque):
        n = eng.fresh_int("len_" + v.tag)
        eng.assume(n.t >= 0)
        return n.t
    raise OutOfSubset("len of %r" % (v,), node)


def b_int(eng, args, kwargs, node, fr):
    v = eng.force(args[0])
    if isinstance(v, VInt):
        return v
    if isinstance(v, VBool):
        return VInt(z3.If(v.t, 1, 0))
    if isinstance(v, VOpaque):
        return eng.fresh_int("int")
    if isinstance(v, VStr):
        base = 10
        if len(args) > 1:
            base = intval(eng.force(args[1]))
        if base not in F_INT:
            raise OutOfSubset("int() base", node)
        sv = strval(v)
        if sv is not None:
            try:
                return VInt(int(sv, base))
            except ValueError:
                raise RaiseSig(VExc("ValueError"))
        ok = F_INT_OK[base](v.t)
        eng.emit("int_call", arg=v, base=base, node=node)
        eng.builtin_pre("ValueError", ok, node)
        return VInt(F_INT[base](v.t))
    raise OutOfSubset("int(%r)" % (v,), node)


def b_str(eng, args, kwargs, node, fr):
    if not args:
        return VStr("", False)
    v = eng.force(args[0])
    if len(args) > 1:
        enc = strval(eng.force(args[1]))
        if isinstance(v, VStr) and v.bytes and enc in ("latin-1", "latin1", "iso-8859-1"):
            r = VStr(v.t, False)
            r.l1 = True
            return r
        raise OutOfSubset("str(x, %r)" % enc, node)
    return eng.to_str(v)


def b_bytes(eng, args, kwargs, node, fr):
    if not args:
        return VStr(b"", True)
    v = eng.force(args[0])
    if isinstance(v, VStr) and v.bytes:
        return v
    raise OutOfSubset("bytes()", node)


def b_isinstance(eng, args, kwargs, node, fr):
    v = eng.force(args[0])
    t = eng.force(args[1])
    ts = t.items if isinstance(t, VTuple) else [t]
    res = []
    for t in ts:
        res.append(isinstance_one(eng, v, t, node))
    if all(isinstance(r, bool) for r in res):
        return VBool(any(res))
    return VBool(z3.Or([r if not isinstance(r, bool) else z3.BoolVal(r) for r in res]))


def isinstance_one(eng, v, t, node):
    name = None
    if isinstance(t, VFunc) and t.kind == "builtin":
        name = t.name
    elif isinstance(t, VClass):
        name = t.qual
    elif isinstance(t, VFunc) and t.kind == "external":
        name = t.name
    else:
        raise OutOfSubset("isinstance type %r" % (t,), node)
    if isinstance(v, VStr):
        return name == ("bytes" if v.bytes else "str")
    if isinstance(v, VBool):
        return name in ("bool", "int")
    if isinstance(v, VInt):
        return name == "int"
    if isinstance(v, VNone):
        return False
    if isinstance(v, VTuple):
        return name == "tuple"
    if isinstance(v, VList):
        m = eng.state.lists[v.lid]
        return name in (("set", "frozenset") if m.tag.startswith("set") else ("list",))
    if isinstance(v, VDict):
        return name == "dict"
    if isinstance(v, VObj):
        return any(c == name for c in eng.mro(v.cls))
    if isinstance(v, VExc):
        return eng.exc_is_subclass(v.cls, name)
    if isinstance(v, VOpaque):
        cache = eng.state.ghost.setdefault("isinstance", {})
        key = (id(v), name)
        types = getattr(v, "types", None)
        if types is not None:
            return name in types
        if key not in cache:
            cache[key] = eng.fresh_bool("isinstance_%s_%s" % (v.tag, name.split(".")[-1])).t
        return cache[key]
    raise OutOfSubset("isinstance(%r)" % (v,), node)


def b_hasattr(eng, args, kwargs, node, fr):
    v = eng.force(args[0])
    name = strval(eng.force(args[1]))
    if isinstance(v, VObj):
        if (v.oid, name) in eng.state.heap or eng.find_method(v.cls, name) or eng.class_attr_default(v.cls, name):
            return VBool(True)
        spec = eng.reg.class_spec(v.cls)
        if spec is not None and (name in spec.fields or name in spec.env_methods):
            return VBool(True)
        return VBool(False)
    if isinstance(v, VNone):
        return VBool(False)
    if isinstance(v, VList):
        return VBool(name in ("__len__", "append", "__iter__"))
    if isinstance(v, VOpaque):
        attrs = getattr(v, "attrs", None)
        if attrs is not None and name in attrs:
            return VBool(attrs[name])
        cache = eng.state.ghost.setdefault("hasattr", {})
        key = (id(v), name)
        if key not in cache:
            cache[key] = eng.fresh_bool("hasattr_%s_%s" % (v.tag, name)).t
        return VBool(cache[key])
    if isinstance(v, VFunc) and v.kind == "external":
        return VBool(True)     # module constants such as socket.AF_UNIX on this platform
    if isinstance(v, VModule):
        return VBool(True)
    raise OutOfSubset("hasattr(%r, %s)" % (v, name), node)


def b_min(eng, args, kwargs, node, fr):
    a, b = eng.force(args[0]), eng.force(args[1])
    if isinstance(a, VInt) and isinstance(b, VInt):
        return VInt(z3.If(a.t <= b.t, a.t, b.t))
    raise OutOfSubset("min", node)


def b_max(eng, args, kwargs, node, fr):
    a, b = eng.force(args[0]), eng.force(args[1])
    if isinstance(a, VInt) and isinstance(b, VInt):
        return VInt(z3.If(a.t >= b.t, a.t, b.t))
    raise OutOfSubset("max", node)


def b_hex(eng, args, kwargs, node, fr):
    a = eng.force(args[0])
    if isinstance(a, VInt):
        iv = intval(a)
        if iv is not None:
            return VStr(hex(iv), False)
        # hex(n) for n >= 0 is "0x" + hexdigits(n)
        r = VStr(z3.If(a.t >= 0, z3.Concat(z3.StringVal("0x"), F_HEXDIGITS(a.t)), z3.Concat(z3.StringVal("-0x"), F_HEXDIGITS(-a.t))), False)
        r.l1 = True      # hex digits are ASCII
        return r
    raise OutOfSubset("hex", node)


def b_repr(eng, args, kwargs, node, fr):
    return eng.fresh_str("repr", False)


def b_sorted(eng, args, kwargs, node, fr):
    v = eng.force(args[0])
    if isinstance(v, VList):
        m = eng.state.lists[v.lid]
        eng.emit("sorted", lst=v, node=node)
        if m.items is not None and len(m.items) <= 1:
            return eng.new_list(ListModel(list(m.items)))
        ln = z3.IntVal(len(m.items)) if m.items is not None else m.length
        nm = ListModel(None, ln, m.make_elem, m.elem_facts, "sorted")
        if m.items is not None:
            items = list(m.items)
            # a permutation of a concrete spine: element i is one of the items
            def mk(i, _items=items):
                for x in _items[:-1]:
                    if eng.branch(eng.fresh_bool("perm").t):
                        return x
                return _items[-1]
            nm.make_elem = mk
        r = eng.new_list(nm)
        nm.perm_of = v.lid
        return r
    raise OutOfSubset("sorted(%r)" % (v,), node)


def b_list(eng, args, kwargs, node, fr):
    if not args:
        return eng.new_list(ListModel([]))
    v = eng.force(args[0])
    if isinstance(v, VList):
        return eng.new_list(eng.state.lists[v.lid].copy())
    if isinstance(v, VTuple):
        return eng.new_list(ListModel(list(v.items)))
    if isinstance(v, VOpaque):
        ln = eng.fresh_int("list_len")
        eng.assume(ln.t >= 0)
        return eng.new_list(ListModel(None, ln.t, lambda i: VOpaque("elem"), [], "list(opaque)"))
    raise OutOfSubset("list(%r)" % (v,), node)


def b_set(eng, args, kwargs, node, fr):
    r = b_list(eng, args, kwargs, node, fr)
    eng.state.lists[r.lid].tag = "set"
    return r


def b_tuple(eng, args, kwargs, node, fr):
    if not args:
        return VTuple([])
    v = eng.force(args[0])
    if isinstance(v, VList) and eng.state.lists[v.lid].items is not None:
        return VTuple(list(eng.state.lists[v.lid].items))
    if isinstance(v, VTuple):
        return v
    raise OutOfSubset("tuple()", node)


def b_dict(eng, args, kwargs, node, fr):
    if not args:
        return eng.new_dict(DictModel({k: (z3.BoolVal(True), v) for k, v in kwargs.items()}, False))
    v = eng.force(args[0])
    if isinstance(v, VDict):
        return eng.new_dict(eng.state.dicts[v.did].copy())
    if isinstance(v, VList) and eng.state.lists[v.lid].items is None and eng.state.lists[v.lid].make_elem is not None:
        # dict(list of pairs): later pairs replace earlier ones with the same key.  Modelled as an opaque mapping whose items() is a NEW
        # abstract list of pairs of the same type and of at most the same length (an over-approximation: any pairs), carrying none of
        # the facts known or later established about the elements of the original list
        o = VOpaque("dictof-list")
        o.src_list = v
        return o
    raise OutOfSubset("dict()", node)


def b_bool(eng, args, kwargs, node, fr):
    return VBool(eng.truth(args[0])) if args else VBool(False)


def b_getattr(eng, args, kwargs, node, fr):
    v = eng.force(args[0])
    name = strval(eng.force(args[1]))
    if len(args) > 2:
        h = b_hasattr(eng, [v, args[1]], {}, node, fr)
        if eng.branch(h.t):
            return eng.getattr(v, name, node, fr)
        return args[2]
    return eng.getattr(v, name, node, fr)


def b_setattr(eng, args, kwargs, node, fr):
    name = strval(eng.force(args[1]))
    if name is None:
        raise OutOfSubset("setattr with symbolic name", node)
    eng.setattr(args[0], name, args[2], node)
    return NONE


def b_id(eng, args, kwargs, node, fr):
    return eng.fresh_int("id")


def b_callable(eng, args, kwargs, node, fr):
    return VBool(True)


def b_print(eng, args, kwargs, node, fr):
    return NONE


def b_range(eng, args, kwargs, node, fr):
    vals = [intval(eng.force(a)) for a in args]
    if any(v is None for v in vals):
        a0 = eng.force(args[0])
        if len(args) == 1 and isinstance(a0, VInt):
            # range(n) for a symbolic n: an abstract sequence of length max(n, 0) whose i-th element is i
            n = z3.If(a0.t > 0, a0.t, 0)
            return eng.new_list(ListModel(None, n, lambda i: VInt(i), [], "range"))
        raise OutOfSubset("symbolic range", node)
    return VTuple([VInt(i) for i in range(*vals)])


def b_filter(eng, args, kwargs, node, fr):
    f = eng.force(args[0])
    v = eng.force(args[1])
    if isinstance(f, VNone) and isinstance(v, VList):
        m = eng.state.lists[v.lid]
        if m.items is not None:
            return eng.new_list(ListModel([x for x in m.items if eng.branch(eng.truth(x))]))
    raise OutOfSubset("filter", node)


def b_any_all(is_any):
    def fn(eng, args, kwargs, node, fr):
        v = eng.force(args[0])
        if isinstance(v, VList) and eng.state.lists[v.lid].items is not None:
            ts = [eng.truth(x) for x in eng.state.lists[v.lid].items]
            if not ts:
                return VBool(not is_any)
            return VBool(z3.Or(ts) if is_any else z3.And(ts))
        raise OutOfSubset("any/all over abstract", node)
    return fn


def b_type(eng, args, kwargs, node, fr):
    v = eng.force(args[0])
    if isinstance(v, VObj):
        return VClass(v.cls)
    if isinstance(v, VExc):
        return VClass(v.cls)
    return VOpaque("type")


BUILTINS = {"len": b_len, "int": b_int, "str": b_str, "bytes": b_bytes, "isinstance": b_isinstance, "hasattr": b_hasattr,
            "min": b_min, "max": b_max, "hex": b_hex, "repr": b_repr, "sorted": b_sorted, "list": b_list, "set": b_set, "frozenset": b_set,
            "tuple": b_tuple, "dict": b_dict, "bool": b_bool, "getattr": b_getattr, "setattr": b_setattr, "id": b_id, "callable": b_callable,
            "print": b_print, "range": b_range, "filter": b_filter, "any": b_any_all(True), "all": b_any_all(False), "type": b_type}


# =========================================================== bound builtin methods
def chars_not_at_edges(eng, r, chars):
    """r neither starts nor ends with one of chars (or is empty)"""
    n = z3.Length(r)
    first = z3.SubString(r, 0, 1)
    last = z3.SubString(r, n - 1, 1)
    return z3.Or(n == 0, z3.And([first != z3.StringVal(c) for c in chars] + [last != z3.StringVal(c) for c in chars]))


def re_star_chars(chars):
    return z3.Star(z3.Union([z3.Re(z3.StringVal(c)) for c in chars])) if len(chars) > 1 else z3.Star(z3.Re(z3.StringVal(chars[0])))


def str_strip(eng, s, chars, left, right, node):
    sv = strval(s)
    if sv is not None:
        cs = "".join(chars)
        out = sv.strip(cs) if (left and right) else (sv.lstrip(cs) if left else sv.rstrip(cs))
        return VStr(out, s.bytes)
    r = eng.fresh_str("stripped", s.bytes)
    parts = []
    if left:
        l = eng.fresh_str("lpad", s.bytes)
        eng.assume(z3.InRe(l.t, re_star_chars(chars)))
        parts.append(l.t)
    parts.append(r.t)
    if right:
        t = eng.fresh_str("rpad", s.bytes)
        eng.assume(z3.InRe(t.t, re_star_chars(chars)))
        parts.append(t.t)
    eng.assume(s.t == z3.Concat(*parts))
    n = z3.Length(r.t)
    conds = [n == 0]
    edge = []
    if left:
        edge += [z3.SubString(r.t, 0, 1) != z3.StringVal(c) for c in chars]
    if right:
        edge += [z3.SubString(r.t, n - 1, 1) != z3.StringVal(c) for c in chars]
    eng.assume(z3.Or(n == 0, z3.And(edge)))
    if getattr(s, "l1", False):
        r.l1 = True
    return r


def call_bound_builtin(eng, recv, attr, args, kwargs, node, fr):
    recv = eng.force(recv)
    args = [eng.force(a) for a in args]
    if isinstance(recv, VStr):
        return str_method(eng, recv, attr, args, kwargs, node, fr)
    if isinstance(recv, VList):
        return list_method(eng, recv, attr, args, kwargs, node, fr)
    if isinstance(recv, VDict):
        return dict_method(eng, recv, attr, args, kwargs, node, fr)
    if isinstance(recv, VSet):
        return set_method(eng, recv, attr, args, kwargs, node, fr)
    if isinstance(recv, VOpaque):
        return opaque_method(eng, recv, attr, args, kwargs, node, fr)
    if isinstance(recv, VTuple) and attr == "__len__":
        return VInt(len(recv.items))
    raise OutOfSubset("method %s on %r" % (attr, recv), node)


def set_method(eng, sv, attr, args, kwargs, node, fr):
    arr, card = eng.state.sets[sv.sid]
    if attr == "__len__":
        return VInt(card)
    x = args[0] if args else None
    if attr in ("add", "discard", "remove"):
        if not isinstance(x, VInt):
            raise OutOfSubset("int-set element %r" % (x,), node)
        eng.emit("set_write", st=sv, node=node, op=attr, arg=x)
        member = z3.Select(arr, x.t)
        if attr == "add":
            eng.state.sets[sv.sid] = (z3.Store(arr, x.t, True), simp(card + z3.If(member, 0, 1)))
        else:
            if attr == "remove":
                eng.builtin_pre("KeyError", member, node)
            eng.state.sets[sv.sid] = (z3.Store(arr, x.t, False), simp(card - z3.If(member, 1, 0)))
        return NONE
    raise OutOfSubset("set method %s" % attr, node)


def mkstr(eng, recv, t):
    r = VStr(t, recv.bytes)
    if getattr(recv, "l1", False):
        r.l1 = True
    return r


def str_method(eng, s, attr, args, kwargs, node, fr):
    if attr == "__len__":
        return VInt(z3.Length(s.t))
    if attr == "find":
        start = args[1].t if len(args) > 1 else z3.IntVal(0)
        return VInt(z3.IndexOf(s.t, args[0].t, start))
    if attr in ("startswith", "endswith"):
        alts = args[0].items if isinstance(args[0], VTuple) else [args[0]]
        fn = z3.PrefixOf if attr == "startswith" else z3.SuffixOf
        return VBool(z3.Or([fn(a.t, s.t) for a in alts]) if len(alts) > 1 else fn(alts[0].t, s.t))
    if attr in ("strip", "lstrip", "rstrip"):
        if args and not isinstance(args[0], VNone):
            cs = strval(args[0])
            if cs is None:
                raise OutOfSubset("strip with symbolic chars", node)
            chars = list(cs)
        else:
            chars = [chr(c) for c in BYTES_WS] if s.bytes else list(STR_WS_L1)
        return str_strip(eng, s, chars, attr != "rstrip", attr != "lstrip", node)
    if attr in ("lower", "upper", "capitalize"):
        sv = strval(s)
        if sv is not None:
            if s.bytes:
                return VStr(getattr(sv.encode("latin-1"), attr)(), True)
            return mkstr(eng, s, z3.StringVal(getattr(sv, attr)()))
        fnz = {"lower": F_LOWER, "upper": F_UPPER, "capitalize": F_CAPITALIZE}[attr]
        r = mkstr(eng, s, fnz(s.t))
        eng.assume(z3.Length(r.t) == z3.Length(s.t))       # latin-1 case maps are length preserving (cross-checked)
        for c in ("\r", "\n"):                            # ... and neither create nor remove CR / LF
            eng.assume(z3.Contains(r.t, z3.StringVal(c)) == z3.Contains(s.t, z3.StringVal(c)))
        eng.emit("case_map", fn=attr, arg=s, res=r)
        return r
    if attr in ("decode", "encode"):
        enc = strval(args[0]) if args else "utf-8"
        if attr == "decode":
            if not s.bytes:
                raise RaiseSig(VExc("AttributeError"))
            if enc in ("latin-1", "latin1", "iso-8859-1"):
                r = VStr(s.t, False)
                r.l1 = True
                return r
            if enc in ("utf-8", "utf8", "ascii"):
                # ASCII-only bytes decode to the same characters; otherwise the decoder may fail (demonic: it either raises
                # UnicodeDecodeError or yields some text no longer than the input)
                ascii_only = z3.InRe(s.t, z3.Star(z3.Range(chr(0), chr(127))))
                sv = strval(s)
                if sv is not None:
                    try:
                        return VStr(sv.encode("latin-1").decode(enc), False)
                    except UnicodeDecodeError:
                        raise RaiseSig(VExc("UnicodeDecodeError"))
                if eng.branch(ascii_only):
                    r = VStr(s.t, False)
                    r.l1 = True
                    return r
                if eng.branch(eng.fresh_bool("decode_fails").t) or enc == "ascii":
                    raise RaiseSig(VExc("UnicodeDecodeError"))
                r = eng.fresh_str("decoded", False)
                eng.assume(z3.Length(r.t) <= z3.Length(s.t))
                return r
            raise OutOfSubset("decode(%r)" % enc, node)
        if s.bytes:
            raise RaiseSig(VExc("AttributeError"))
        if enc in ("latin-1", "latin1", "iso-8859-1"):
            sv = strval(s)
            if sv is not None:
                try:
                    return VStr(sv.encode("latin-1"), True)
                except UnicodeEncodeError:
                    raise RaiseSig(VExc("UnicodeEncodeError"))
            if not getattr(s, "l1", False):
                ok = z3.Function("py_is_latin1", z3.StringSort(), z3.BoolSort())(s.t)
                eng.builtin_pre("UnicodeEncodeError", ok, node)
            return VStr(s.t, True)
        if enc == "utf-8":
            sv = strval(s)
            if sv is not None:
                return VStr(sv.encode("utf-8"), True)
            r = eng.fresh_str("utf8", True)
            eng.assume(z3.Length(r.t) >= z3.Length(s.t))
            return r
        raise OutOfSubset("encode(%r)" % enc, node)
    if attr == "replace":
        sv, a, b = strval(s), strval(args[0]), strval(args[1])
        if sv is not None and a is not None and b is not None:
            return mkstr(eng, s, z3.StringVal(sv.replace(a, b)))
        r = mkstr(eng, s, F_REPLACE(s.t, args[0].t, args[1].t))
        if a is not None and b is not None and len(a) == len(b):
            eng.assume(z3.Length(r.t) == z3.Length(s.t))
        if a is not None and b is not None and a and a not in b:
            eng.assume(z3.Not(z3.Contains(r.t, z3.StringVal(a))))
        return r
    if attr == "split":
        return str_split(eng, s, args, kwargs, node)
    if attr == "rsplit":
        return str_rsplit(eng, s, args, node)
    if attr == "partition":
        sep = args[0]
        i = z3.IndexOf(s.t, sep.t, 0)
        ln = z3.Length(s.t)
        found = i >= 0
        head = mkstr(eng, s, z3.If(found, z3.SubString(s.t, 0, i), s.t))
        mid = mkstr(eng, s, z3.If(found, sep.t, z3.StringVal("")))
        tail = mkstr(eng, s, z3.If(found, z3.SubString(s.t, i + z3.Length(sep.t), ln), z3.StringVal("")))
        return VTuple([head, mid, tail])
    if attr == "join":
        return str_join(eng, s, args[0], node)
    if attr == "splitlines":
        ln = eng.fresh_int("nlines")
        eng.assume(ln.t >= 0)
        return eng.new_list(ListModel(None, ln.t, lambda i: eng.fresh_str("line", s.bytes), [], "splitlines"))
    if attr == "format":
        return eng.fresh_str("format", s.bytes)
    if attr == "isdigit":
        return eng.fresh_bool("isdigit")
    raise OutOfSubset("str method %s" % attr, node)


def str_split(eng, s, args, kwargs, node):
    sv = strval(s)
    if args and not isinstance(args[0], VNone):
        sepv = strval(args[0])
        if sepv is None:
            raise OutOfSubset("split with symbolic separator", node)
    else:
        sepv = None
    maxsplit = intval(args[1]) if len(args) > 1 else -1
    if sv is not None:
        parts = sv.split(sepv, maxsplit) if sepv is not None else sv.split()
        return eng.new_list(ListModel([VStr(p, s.bytes) for p in parts]))
    if sepv is not None and maxsplit == 1:
        i = z3.IndexOf(s.t, z3.StringVal(sepv), 0)
        if eng.branch(i >= 0):
            a = mkstr(eng, s, z3.SubString(s.t, 0, i))
            b = mkstr(eng, s, z3.SubString(s.t, i + len(sepv), z3.Length(s.t)))
            return eng.new_list(ListModel([a, b]))
        return eng.new_list(ListModel([s]))
    ln = eng.fresh_int("nparts")
    eng.assume(ln.t >= (1 if sepv is not None else 0))
    facts = []
    if sepv is not None and maxsplit == -1:
        facts.append(lambda e, x, _sep=sepv: z3.Not(z3.Contains(x.t, z3.StringVal(_sep))))
        # no separator in s  <=>  exactly one part, equal to s
        eng.assume(z3.Implies(z3.Not(z3.Contains(s.t, z3.StringVal(sepv))), ln.t == 1))
        eng.assume(z3.Implies(z3.Contains(s.t, z3.StringVal(sepv)), ln.t >= 2))
    facts.append(lambda e, x: z3.Contains(s.t, x.t))                # every part is a factor of s
    facts.append(lambda e, x: z3.Length(x.t) <= z3.Length(s.t))
    isb, l1 = s.bytes, getattr(s, "l1", False)

    def mk(i):
        x = eng.fresh_str("part", isb)
        if l1:
            x.l1 = True
        return x
    m = ListModel(None, ln.t, mk, facts, "split")
    m.split_of = (s, sepv)
    r = eng.new_list(m)
    if sepv is not None and maxsplit == -1:
        # single part case is exact
        pass
    return r


def str_rsplit(eng, s, args, node):
    sepv = strval(args[0])
    maxsplit = intval(args[1]) if len(args) > 1 else -1
    sv = strval(s)
    if sv is not None and sepv is not None:
        return eng.new_list(ListModel([VStr(p, s.bytes) for p in sv.rsplit(sepv, maxsplit)]))
    if sepv is None or maxsplit != 1:
        raise OutOfSubset("rsplit form", node)
    has = z3.Contains(s.t, z3.StringVal(sepv))
    if eng.branch(has):
        a = eng.fresh_str("rs_head", s.bytes)
        b = eng.fresh_str("rs_tail", s.bytes)
        for x in (a, b):
            if getattr(s, "l1", False):
                x.l1 = True
        eng.assume(s.t == z3.Concat(a.t, z3.StringVal(sepv), b.t))
        eng.assume(z3.Not(z3.Contains(b.t, z3.StringVal(sepv))))
        return eng.new_list(ListModel([a, b]))
    return eng.new_list(ListModel([s]))


def str_join(eng, sep, it, node):
    if isinstance(it, VList):
        m = eng.state.lists[it.lid]
        if m.items is not None:
            items = [eng.force(x) for x in m.items]
            if all(isinstance(x, VStr) for x in items):
                if not items:
                    return VStr("", sep.bytes)
                t = items[0].t
                for x in items[1:]:
                    t = z3.Concat(t, sep.t, x.t)
                r = VStr(t, sep.bytes)
                if all(getattr(x, "l1", False) for x in items):
                    r.l1 = True
                return r
        r = eng.fresh_str("joined", sep.bytes)
        eng.emit("join", sep=sep, lst=it, res=r, node=node)
        # every character of the result belongs to the separator or to some element: name that element (witness)
        if m.items is None and m.make_elem is not None:
            wi = eng.fresh_int("join_witness_idx")
            eng.assume(z3.And(wi.t >= 0, z3.Or(wi.t < m.length, m.length == 0)))
            try:
                w = eng.force(eng.list_elem(it, m, wi.t))
            except Exception:
                w = None
            if isinstance(w, VStr):
                for c in ("\r", "\n"):
                    eng.assume(z3.Implies(z3.Contains(r.t, z3.StringVal(c)),
                                          z3.Or(z3.Contains(sep.t, z3.StringVal(c)), z3.And(m.length > 0, z3.Contains(w.t, z3.StringVal(c))))))
        # join of zero elements is empty; of one element is that element
        ln = m.length if m.items is None else z3.IntVal(len(m.items))
        eng.assume(z3.Implies(ln == 0, r.t == z3.StringVal("")))
        return r
    if isinstance(it, VTuple):
        items = [eng.force(x) for x in it.items]
        if not items:
            return VStr("", sep.bytes)
        t = items[0].t
        for x in items[1:]:
            t = z3.Concat(t, sep.t, x.t)
        return VStr(t, sep.bytes)
    raise OutOfSubset("join over %r" % (it,), node)


# ---- lists
def list_extend(eng, lv, other, node):
    m = eng.state.lists[lv.lid]
    other = eng.force(other)
    eng.emit("list_write", lst=lv, node=node, op="extend", arg=other)
    if isinstance(other, VList):
        o = eng.state.lists[other.lid]
        if m.items is not None and o.items is not None:
            m.items.extend(o.items)
            return
        ln = (z3.IntVal(len(m.items)) if m.items is not None else m.length) + (z3.IntVal(len(o.items)) if o.items is not None else o.length)
        check_elem_facts_list(eng, m, o, node)
        if m.items is not None and not m.items and o.items is None:
            m.elem_facts = list(o.elem_facts)        # [] extended by xs: exactly the elements (and element facts) of xs
        m.items = None if o.items is None or m.items is None else m.items
        if m.items is None:
            m.length = simp(ln)
            m.make_elem = m.make_elem or o.make_elem
            m.__dict__.pop("cache", None)
        return
    if isinstance(other, VTuple):
        if m.items is not None:
            m.items.extend(other.items)
            return
    raise OutOfSubset("extend with %r" % (other,), node)


def check_elem_facts_list(eng, m, o, node):
    """appending all of o to m: m's element facts must hold for o's elements"""
    if not m.elem_facts:
        return
    if o.items is not None:
        for x in o.items:
            for k, fact in enumerate(m.elem_facts):
                eng.oblige("%s/list-elem-fact#%d" % (eng.cur_func, k), fact(eng, x), kind="elem-fact")
        return
    x = o.make_elem(eng.fresh_int("ext_idx").t) if o.make_elem else None
    if x is None:
        raise OutOfSubset("extend: element facts cannot be checked", node)
    for f2 in o.elem_facts:
        eng.assume(f2(eng, x))
    for k, fact in enumerate(m.elem_facts):
        eng.oblige("%s/list-elem-fact#%d" % (eng.cur_func, k), fact(eng, x), kind="elem-fact")


def list_method(eng, lv, attr, args, kwargs, node, fr):
    m = eng.state.lists[lv.lid]
    if attr == "__len__":
        return VInt(z3.IntVal(len(m.items)) if m.items is not None else m.length)
    if attr in ("append", "add"):
        eng.emit("list_write", lst=lv, node=node, op=attr, arg=args[0])
        if attr == "add" and m.items is not None:
            if any(eng.const_eq(args[0], x) for x in m.items):
                return NONE
        if m.items is not None:
            m.items.append(args[0])
        else:
            for k, fact in enumerate(m.elem_facts):
                eng.oblige("%s/list-elem-fact:%s" % (eng.cur_func, getattr(fact, "pred_name", k)), fact(eng, args[0]), kind="elem-fact")
            old_len = m.length
            m.length = simp(m.length + 1)
            m.__dict__.pop("cache", None)
        if m.seq is not None:
            m.seq = z3.Concat(m.seq, z3.Unit(elem_id(eng, args[0])))
            if m.items is None:
                m.length = z3.Length(m.seq)
        return NONE
    if attr == "extend":
        list_extend(eng, lv, args[0], node)
        return NONE
    if attr in ("pop", "popleft"):
        eng.emit("list_write", lst=lv, node=node, op=attr, arg=args[0] if args else None)
        idx = intval(args[0]) if args else (0 if attr == "popleft" else -1)
        if m.items is not None:
            if not m.items:
                raise RaiseSig(VExc("IndexError"))
            if idx is None:
                raise OutOfSubset("pop symbolic index", node)
            v = m.items.pop(idx)
            if m.seq is not None:
                n = z3.Length(m.seq)
                m.seq = z3.SubSeq(m.seq, 1, n - 1) if idx == 0 else z3.SubSeq(m.seq, 0, n - 1)
            eng.emit("list_pop", lst=lv, value=v, node=node)
            return v
        eng.builtin_pre("IndexError", m.length > 0, node)
        if idx not in (0, -1):
            raise OutOfSubset("pop index", node)
        v = eng.list_elem(lv, m, z3.IntVal(0) if idx == 0 else simp(m.length - 1))
        if m.seq is not None:
            n = z3.Length(m.seq)
            eng.assume(elem_id(eng, v) == (m.seq[0] if idx == 0 else m.seq[n - 1]))
            m.seq = z3.SubSeq(m.seq, 1, n - 1) if idx == 0 else z3.SubSeq(m.seq, 0, n - 1)
        m.length = simp(m.length - 1) if m.seq is None else z3.Length(m.seq)
        m.__dict__.pop("cache", None)
        eng.emit("list_pop", lst=lv, value=v, node=node)
        return v
    if attr in ("remove", "discard"):
        eng.emit("list_write", lst=lv, node=node, op=attr, arg=args[0])
        if m.items is not None:
            for i, x in enumerate(m.items):
                c = eng.eq(args[0], x)
                if is_true(c):
                    del m.items[i]
                    return NONE
                if not is_true(z3.Not(c)):
                    if eng.branch(c):
                        del m.items[i]
                        return NONE
            if attr == "remove":
                raise RaiseSig(VExc("KeyError" if m.tag.startswith("set") else "ValueError"))
            return NONE
        has = eng.fresh_bool("set_has")
        if attr == "remove":
            eng.builtin_pre("KeyError" if m.tag.startswith("set") else "ValueError", has.t, node)
            m.length = simp(m.length - 1)
        else:
            m.length = simp(z3.If(has.t, m.length - 1, m.length))
        eng.assume(z3.Implies(has.t, m.length >= 0))
        return NONE
    if attr == "clear":
        eng.emit("list_write", lst=lv, node=node, op=attr)
        m.items = []
        return NONE
    if attr == "copy":
        return eng.new_list(m.copy())
    raise OutOfSubset("list method %s" % attr, node)


def elem_id(eng, v):
    v = eng.force(v)
    if isinstance(v, VObj):
        return z3.IntVal(v.oid)
    if isinstance(v, VInt):
        return v.t
    if isinstance(v, VOpaque):
        if not hasattr(v, "ident"):
            v.ident = eng.fresh_int("ident").t
        return v.ident
    raise OutOfSubset("ghost sequence element %r" % (v,))


# ---- dicts
def dict_method(eng, d, attr, args, kwargs, node, fr):
    m = eng.state.dicts[d.did]
    if attr == "get":
        p, v = eng.dict_get(d, args[0], node)
        default = args[1] if len(args) > 1 else NONE
        if eng.branch(p):
            return v
        return default
    if attr == "pop":
        p, v = eng.dict_get(d, args[0], node)
        if eng.branch(p):
            ck, sym = eng.dict_key(args[0], node)
            eng.emit("dict_write", d=d, key=args[0], val=None, node=node)
            if ck is None:
                raise OutOfSubset("pop with symbolic key", node)
            m.entries[ck] = (z3.BoolVal(False), NONE)
            return v
        if len(args) > 1:
            return args[1]
        raise RaiseSig(VExc("KeyError"))
    if attr in ("remove", "discard") and m.tag == "strset":
        p, v = eng.dict_get(d, args[0], node)
        if attr == "remove":
            eng.builtin_pre("KeyError", p, node)
        ck, sym = eng.dict_key(args[0], node)
        if ck is None:
            raise OutOfSubset("set remove with symbolic element", node)
        m.entries[ck] = (z3.BoolVal(False), NONE)
        return NONE
    if attr == "items":
        if not m.open and not getattr(m, "sym_entries", None):
            out = []
            for k, (p, v) in m.entries.items():
                if is_true(p):
                    out.append(VTuple([VStr(k, False), v]))
                elif not is_true(z3.Not(p)):
                    if eng.branch(p):
                        out.append(VTuple([VStr(k, False), v]))
            return eng.new_list(ListModel(out))
        ln = eng.fresh_int("nitems")
        eng.assume(ln.t >= 0)
        return eng.new_list(ListModel(None, ln.t, lambda i: VTuple([eng.fresh_str("key", False), (m.make_val("?") if m.make_val else VOpaque("dictval"))]), [], "items"))
    if attr == "values":
        if not m.open:
            return eng.new_list(ListModel([v for k, (p, v) in m.entries.items() if eng.branch(p)]))
        ln = eng.fresh_int("nvalues")
        eng.assume(ln.t >= 0)
        return eng.new_list(ListModel(None, ln.t, lambda i: (m.make_val("?") if m.make_val else VOpaque("dictval")), [], "values"))
    if attr == "clear":
        eng.emit("dict_write", d=d, key=None, val=None, node=node)
        eng.state.dicts[d.did] = DictModel({}, False, m.make_val, m.tag)
        return NONE
    raise OutOfSubset("dict method %s" % attr, node)


# ---- opaque receivers (loggers, regex objects, match objects, ...)
def opaque_method(eng, recv, attr, args, kwargs, node, fr):
    tag = recv.tag
    if tag.startswith("regex:"):
        return regex_method(eng, recv, attr, args, kwargs, node, fr)
    if tag.startswith("match:"):
        if attr == "group":
            vals = [eng.regex_group(recv, a, node) for a in args]
            return vals[0] if len(vals) == 1 else VTuple(vals)
        if attr == "end":
            return VInt(recv.end)
    if tag == "dictof-list" and attr == "items" and getattr(recv, "src_list", None) is not None:
        src = eng.state.lists[recv.src_list.lid]
        ln = eng.fresh_int("nitems")
        eng.assume(z3.And(ln.t >= 0, ln.t <= src.length))
        eng.assume(z3.Implies(src.length >= 1, ln.t >= 1))
        m = ListModel(None, ln.t, src.make_elem, [], "dict-items")
        if hasattr(src, "elem_ty"):
            m.elem_ty = src.elem_ty
        return eng.new_list(m)
    spec = eng.reg.demonic.get(tag + "." + attr)
    if spec is not None:
        return call_env(eng, spec, recv, tag + "." + attr, args, kwargs, node, fr)
    if "logger" in tag or attr in ("exception", "warning", "info", "debug", "error", "log") and "log" in tag:
        eng.emit("log", method=attr, args=args, node=node)
        return NONE
    raise OutOfSubset("method %s on opaque %s" % (attr, tag), node)


def regex_fn(name, method):
    return z3.Function("re!%s!%s" % (name, method), z3.StringSort(), z3.BoolSort())


def regex_method(eng, recv, attr, args, kwargs, node, fr):
    name = recv.tag[len("regex:"):]
    short = name.split(".")[-1]
    if attr in ("match", "fullmatch", "search"):
        arg = args[0]
        if not isinstance(arg, VStr):
            raise OutOfSubset("regex on %r" % (arg,), node)
        sv = strval(arg)
        if sv is not None:
            # constant argument: run the REAL compiled pattern of the running module
            modname, pname = name.split(".")[0], name.split(".")[-1]
            pat = getattr(eng.repo.module(modname), pname)
            subject = sv.encode("latin-1") if isinstance(pat.pattern, bytes) else sv
            m = getattr(pat, attr)(subject)
            if m is None:
                return NONE
            mo = VOpaque("match:%s:%s" % (short, attr), truth=z3.BoolVal(True))
            mo.arg, mo.pattern, mo.method = arg, short, attr
            mo.end = z3.IntVal(m.end())
            mo.groups = {}
            for gname, gi in pat.groupindex.items():
                g = m.group(gi)
                mo.groups[gname] = NONE if g is None else VStr(g, arg.bytes)
                mo.groups[gi] = mo.groups[gname]
            return mo
        matched = regex_fn(short, attr)(arg.t)
        for lemma in eng.reg.regex_lemmas.get((short, attr), []):
            lemma(eng, arg, matched)
        eng.emit("regex_gate", pattern=short, method=attr, arg=arg, matched=matched, node=node)
        mo = VOpaque("match:%s:%s" % (short, attr), truth=z3.BoolVal(True))
        mo.arg = arg
        mo.pattern = short
        mo.method = attr
        mo.groups = {}
        e = eng.fresh_int("match_end")
        eng.assume(z3.And(e.t >= 0, e.t <= z3.Length(arg.t)))
        if attr == "fullmatch":
            eng.assume(e.t == z3.Length(arg.t))
        mo.end = e.t
        return VOpt(z3.Not(matched), mo)
    if attr == "sub":
        r = eng.fresh_str("re_sub", args[1].bytes)
        eng.assume(z3.Length(r.t) <= z3.Length(args[1].t))
        if getattr(args[1], "l1", False):
            r.l1 = True
        return r
    raise OutOfSubset("regex method %s" % attr, node)


def _regex_group(eng, mo, key, node=None):
    key = eng.force(key)
    k = strval(key) if isinstance(key, VStr) else intval(key)
    if k in mo.groups:
        return mo.groups[k]
    g = eng.fresh_str("group_%s" % k, mo.arg.bytes)
    if getattr(mo.arg, "l1", False):
        g.l1 = True
    eng.assume(z3.Contains(mo.arg.t, g.t))
    v = g
    lemmas = eng.reg.regex_group_lemmas.get((mo.pattern, k), [])
    optional = (mo.pattern, k) in eng.reg.regex_optional_groups
    for lemma in lemmas:
        lemma(eng, mo.arg, g)
    if optional:
        v = VOpt(eng.fresh_bool("group_%s_absent" % k).t, g)
    mo.groups[k] = v
    return v


# ================================================================== externals
def ext_time(eng, args, kwargs, node, fr):
    t = eng.fresh_int("now")
    last = eng.state.ghost.get("clock")
    if last is not None:
        eng.assume(t.t >= last)
    eng.state.ghost["clock"] = t.t
    return t


def ext_noop(eng, args, kwargs, node, fr):
    return NONE


def ext_fresh_str(eng, args, kwargs, node, fr):
    return eng.fresh_str("ext", False)


def ext_urlsplit(eng, args, kwargs, node, fr):
    # urllib.parse.urlsplit(bytes): five bytes components; raises ValueError (UnicodeError is a subclass) on some inputs
    a = eng.force(args[0])
    sv = strval(a) if isinstance(a, VStr) else None
    if sv is not None and a.bytes:
        import urllib.parse
        try:
            parts = urllib.parse.urlsplit(sv.encode("latin-1"))
        except UnicodeError:
            raise RaiseSig(VExc("UnicodeDecodeError"))
        except ValueError:
            raise RaiseSig(VExc("ValueError"))
        return VTuple([VStr(p, True) for p in parts])
    c = eng.choose(3, "urlsplit")
    if c == 1:
        raise RaiseSig(VExc("UnicodeDecodeError"))
    if c == 2:
        raise RaiseSig(VExc("ValueError"))
    return VTuple([eng.fresh_str("url_%s" % n, True) for n in ("scheme", "netloc", "path", "query", "fragment")])


def ext_unquote_to_bytes(eng, args, kwargs, node, fr):
    a = eng.force(args[0])
    sv = strval(a)
    if sv is not None:
        import urllib.parse
        return VStr(urllib.parse.unquote_to_bytes(sv.encode("latin-1")), True)
    r = VStr(F_UNQUOTE(a.t), True)
    eng.assume(z3.Length(r.t) <= z3.Length(a.t))
    return r


EXTERNALS = {
    "urllib.parse.urlsplit": ext_urlsplit,
    "urllib.parse.unquote_to_bytes": ext_unquote_to_bytes,
    "time.time": ext_time,
    "warnings.warn": ext_noop,
    "traceback.format_exc": ext_fresh_str,
}
