"""Sidecar contract registry and the per-function verification harness.

Contracts are plain data; expressions are python source text evaluated by the same
symbolic evaluator that executes the code (and evaluable natively).  Vocabulary in
contract expressions: parameters, self.<field>, old(expr), result, raised (bool),
implies(a, b), plus the spec functions registered in Registry.spec_funcs.
"""
import ast

import z3

from . import pyvc
from .pyvc import (NONE, Frame, OutOfSubset, PathEnd, RaiseSig, ReturnSig, VBool, VExc, VInt, VList, VObj, VOpaque, VOpt,
                   VStr, VTuple, ListModel, Sig)

# ---- type descriptors
Int = ("int",)
Bool = ("bool",)
Bytes = ("bytes",)
Str = ("str",)
Str1 = ("str1",)        # str whose code points are all <= 0xFF (came from bytes.decode("latin-1"))
NoneT = ("none",)


def Opt(t):
    return ("opt", t)


def Obj(q, lazy=False):
    return ("obj", q, "lazy") if lazy else ("obj", q)


def ListOf(t):
    return ("list", t)


def DictOf(t):
    return ("dict", t)


def TupleOf(*ts):
    return ("tuple", list(ts))


IntSet = ("intset",)
SeqInt = ("seq",)


def GList(t):
    return ("glist", t)


def Opaque(tag):
    return ("opaque", tag)


def OneOf(*ts):
    return ("oneof", list(ts))


class ClassSpec:
    def __init__(self, qual, fields=None, invariants=None, ghost_props=None, env_methods=None, truth=None, inherit=True):
        self.inherit = inherit                           # False: base-class invariants do not apply to this class
        self.assumed = []                                # [(name, text)]: facts assumed wherever invariants are assumed, never proved (listed in evidence)
        self.qual = qual
        self.module = qual.split(".")[0]
        self.fields = dict(fields or {})
        self.invariants = list(invariants or [])        # [(name, text)]
        self.ghost_props = dict(ghost_props or {})      # name -> text over self
        self.env_methods = dict(env_methods or {})      # name -> EnvSpec
        self.truth = truth


class EnvSpec:
    """demonic environment operation: returns any value of `returns` satisfying `ensures`,
    or raises any of `raises`; `effect(eng, recv, args, result)` may update ghost state."""
    def __init__(self, returns=None, raises=(), ensures=(), effect=None, params=()):
        self.returns, self.raises, self.ensures, self.effect, self.params = returns, list(raises), list(ensures), effect, list(params)


class FuncContract:
    def __init__(self, qual, params=None, returns=None, requires=(), ensures=(), raises=(), raises_when=(), modifies=(),
                 cls=None, ensures_exc=(), inline=False, loops=None, check_invariant=True, ghost=None, self_fields=None, fresh_self=False,
                 assume_invariant=True, props=(), result_is=None, setup=None, rely=(), monitor_preserves=(), entry_holds=None, closure_self=None, free=None):
        self.free = dict(free or {})                     # free variables of a nested function (closed-over names) -> type descriptors
        self.closure_self = closure_self                 # class of the `self` a nested function closes over (verified like a method of it)
        self.entry_holds = dict(entry_holds or {})       # role -> [lock field names] held when the function is entered
        self.rely = list(rely)                           # [(name, text over params+self)] re-assumed after every monitor havoc (stable under other threads)
        self.monitor_preserves = list(monitor_preserves)   # [(name, int-valued text)] equal at release to its value at acquire
        self.setup = setup                    # callable(eng, env): extra aliasing / ghost initialisation of the symbolic pre-state
        self.result_is = result_is            # text: the call returns exactly this (aliasing) expression of the post-state
        self.qual = qual
        self.params = dict(params or {})
        self.returns = returns
        self.requires = list(requires)        # [(name, text)]
        self.ensures = list(ensures)          # [(name, text)]  normal exit
        self.ensures_exc = list(ensures_exc)  # [(name, text)]  exceptional exit (any declared exception)
        self.raises = list(raises)            # allowed exception class names (body obligation) / possible (call site)
        self.raises_when = list(raises_when)  # [(exc class, condition text over old state)] exact conditions for callers
        self.modifies = list(modifies)        # ["self.f", "self.buf.view", ...]
        self.cls = cls
        self.inline = inline
        self.loops = dict(loops or {})        # ordinal -> LoopSpec
        self.check_invariant = check_invariant
        self.assume_invariant = assume_invariant
        self.fresh_self = fresh_self
        self.props = list(props)


class Cut:
    """A cut point at a TOP-LEVEL statement of the function (identified by a snippet of its source line): paths arriving
    there must establish `invariants` and stop; one fresh segment starts there from an arbitrary state satisfying them
    (locals re-created from `locals` types, the contract's `modifies` locations havocked, old() = an arbitrary entry state)."""
    def __init__(self, anchor, invariants=(), locals=None, init=None, optional=()):
        self.anchor, self.invariants, self.locals = anchor, list(invariants), dict(locals or {})
        self.init = init          # callable(eng, frame): builds locals / ghost state that a type descriptor cannot express
        self.optional = set(optional)   # helper locals the code may not have: if the function never assigns one, the cut neither
                                        # creates it nor states the clauses that mention it (a property clause never mentions one)

    def active(self, fn):
        """(locals, invariants) restricted to the names the function actually assigns"""
        assigned = {n.id for n in ast.walk(fn) if isinstance(n, ast.Name) and isinstance(n.ctx, ast.Store)}
        missing = {n for n in self.optional if n not in assigned}
        if not missing:
            return self.locals, self.invariants
        def mentions(text):
            try:
                return any(isinstance(n, ast.Name) and n.id in missing for n in ast.walk(ast.parse(text, mode="eval")))
            except SyntaxError:
                return False
        return ({k: v for k, v in self.locals.items() if k not in missing}, [(n, t) for n, t in self.invariants if not mentions(t)])


def _unreachable_ok_lines(self, eng, fn):
    # statements whose source line contains one of the contract's `unreachable_ok` snippets (documented dead code)
    out = []
    text = eng.repo.text(self.qual.split(".")[0]).splitlines()
    for st in ast.walk(fn):
        if isinstance(st, ast.stmt):
            line = text[st.lineno - 1]
            snips = tuple(getattr(self, "unreachable_ok", ())) + tuple((getattr(self, "unreachable_ok_by_role", None) or {}).get(getattr(eng, "role", None), ()))
            if any(snip in line for snip in snips):
                for sub in ast.walk(st):
                    if isinstance(sub, ast.stmt):
                        out.append(sub.lineno)
    return out


FuncContract.unreachable_ok_lines = _unreachable_ok_lines
FuncContract.unreachable_ok = ()
FuncContract.frame_check = True
FuncContract.cuts = ()
FuncContract.impl = None        # qualified name of the function whose body implements this contract (inherited methods)
FuncContract.body_only = ()    # names of ensures clauses that are verified on the body but not assumed at call sites
FuncContract.owns = ()         # locations whose object is part of self's representation (see owned_oids)
FuncContract.only_segments = None      # verify only these segments (others are outside the subset / outside the property)


class LoopSpec:
    def __init__(self, invariants=(), variant=None, modifies=(), unroll=None, kind=None, index=None, types=None, establishes=()):
        self.types = dict(types or {})        # local name -> type descriptor used when the loop havocs it
        self.assumed = []                     # [(name, text)] assumed with the invariants, never proved (listed as assumptions)
        self.entry_only = []                  # [(name, text)] obligations at loop entry that are NOT part of the invariant
        self.establishes = list(establishes)  # element predicate names: proved for the arbitrary element at the end of the body, then
                                              # installed as a fact on the iterated list when the loop finishes by exhaustion
        self.invariants = list(invariants)    # [(name, text)] over locals + self
        self.variant = variant                # text -> int or tuple of ints (lexicographic)
        self.modifies = list(modifies)        # extra heap locations "self.f" havocked
        self.unroll = unroll
        self.index = index                    # for `for` loops over abstract lists: name of ghost index variable


class Registry:
    def __init__(self):
        self.classes = {}
        self.funcs = {}
        self.spec_funcs = {}
        self.inline = set()
        self.demonic = {}         # opaque tag -> EnvSpec (callable opaque values)
        self.externals = {}       # 'time.time' -> EnvSpec or python callable(eng, args, kwargs, node)
        self.regex_lemmas = {}    # (pattern name, method) -> [callable(eng, argV, matched z3 Bool)]
        self.regex_group_lemmas = {}   # (pattern name, group) -> [callable(eng, argV, groupV)]
        self.regex_optional_groups = set()
        self.inline_all = False
        self.elem_preds = {}      # name -> callable(eng, V) -> z3 Bool   (facts holding for every element of a list)
        self._exprs = {}

    def add_class(self, spec):
        self.classes[spec.qual] = spec
        return spec

    def add(self, con):
        self.funcs[con.qual] = con
        return con

    def class_spec(self, qual):
        return self.classes.get(qual)

    def contract(self, qual):
        return self.funcs.get(qual)

    def parse_expr(self, text):
        if text not in self._exprs:
            self._exprs[text] = ast.parse(text.strip(), mode="eval").body
        return self._exprs[text]

    def install_std_specs(self):
        from .builtins_model import spec_all_elems, spec_dict_empty
        self.spec_funcs["all_elems"] = spec_all_elems
        self.spec_funcs["dict_empty"] = spec_dict_empty

    def spec(self, name):
        def deco(fn):
            self.spec_funcs[name] = fn
            return fn
        return deco


# ------------------------------------------------------------- location helpers
def resolve_location(eng, text, env):
    """'self.buf.view' -> (obj, field)"""
    parts = text.split(".")
    v = env[parts[0]]
    for p in parts[1:-1]:
        v = eng.force(eng.getattr(v, p))
    v = eng.force(v)
    if not isinstance(v, VObj):
        raise OutOfSubset("modifies location %s does not denote an object field" % text)
    return v, parts[-1]


def havoc_like(eng, val, base, ty=None, elem_ty=None):
    """fresh value of the same shape as val"""
    if ty is not None and ty[0] == "list" and isinstance(val, VList):
        elem_ty = ty[1]
        ty = None
    if ty is not None:
        return eng.fresh_of_type(ty, base)
    if isinstance(val, VInt):
        return eng.fresh_int(base)
    if isinstance(val, VBool):
        return eng.fresh_bool(base)
    if isinstance(val, VStr):
        return eng.fresh_str(base, val.bytes)
    if isinstance(val, VOpt):
        return VOpt(eng.fresh_bool(base + "_isnone").t, havoc_like(eng, val.val, base))
    if isinstance(val, pyvc.VNone):
        return val
    if isinstance(val, VOpaque):
        return VOpaque(val.tag)
    if isinstance(val, VTuple):
        return VTuple([havoc_like(eng, x, base) for x in val.items])
    if isinstance(val, VList):
        m = eng.state.lists[val.lid]
        ln = eng.fresh_int(base + "_len")
        eng.assume(ln.t >= 0)
        mk = m.make_elem
        if mk is None and elem_ty is not None:
            mk = lambda i, _t=elem_ty, _b=base: eng.fresh_of_type(_t, _b + "_elem")
        if mk is None and m.items:
            mk = lambda i, _s=m.items[0], _b=base: havoc_like(eng, _s, _b + "_elem")
        nm = ListModel(None, ln.t, mk, m.elem_facts, m.tag)
        if m.seq is not None:
            import z3 as _z3
            n = eng.fresh_name(base + "_seq")
            sq = _z3.Const(n, _z3.SeqSort(_z3.IntSort()))
            eng.vars[n] = sq
            nm.seq = sq
            nm.length = _z3.Length(sq)
            ety = getattr(m, "elem_ty", None)
            if ety is not None:
                nm.elem_ty = ety
            # never reuse the old maker: it ties elements to the OLD ghost sequence
            base_mk = (lambda i, _t=ety, _b=base: eng.fresh_of_type(_t, _b + "_elem")) if ety is not None else None

            def mk2(i, _sq=sq, _mk=base_mk):
                x = _mk(i) if _mk else pyvc.VOpaque("elem")
                from .builtins_model import elem_id
                try:
                    eng.assume(elem_id(eng, x) == _sq[i])
                except OutOfSubset:
                    pass
                return x
            nm.make_elem = mk2
        eng.state.lists[val.lid] = nm        # same identity, new content
        return val
    if isinstance(val, VObj):
        return val
    if isinstance(val, pyvc.VSet):
        import z3 as _z3
        arr = _z3.Array(eng.fresh_name(base + "_member"), _z3.IntSort(), _z3.BoolSort())
        card = eng.fresh_int(base + "_card")
        eng.assume(card.t >= 0)
        eng.state.sets[val.sid] = (arr, card.t)
        return val
    if isinstance(val, pyvc.VSeq):
        import z3 as _z3
        n = eng.fresh_name(base)
        c = _z3.Const(n, _z3.SeqSort(_z3.IntSort()))
        eng.vars[n] = c
        return pyvc.VSeq(c)
    if isinstance(val, pyvc.VDict):
        m = eng.state.dicts[val.did]
        mk = m.make_val
        if mk is None:
            # value shape taken from an existing entry when the dict had no declared value type
            sample = next((v for _, v in m.entries.values()), None)
            mk = (lambda key, _s=sample: havoc_like(eng, _s, "dictval")) if sample is not None else None
        nm = pyvc.DictModel({}, True, mk, m.tag)
        nm.origin = next(eng._fresh)          # a havocked dict has new, unrelated initial content
        eng.state.dicts[val.did] = nm
        return val
    raise OutOfSubset("havoc of %r" % (val,))


def field_type(eng, obj, field):
    spec = eng.reg.class_spec(obj.cls)
    if spec is not None:
        for c in [obj.cls] + eng.mro(obj.cls)[1:]:
            s = eng.reg.class_spec(c)
            if s is not None and field in s.fields:
                return s.fields[field]
    return None


# ----------------------------------------------------------- applying a contract
def apply_contract(eng, con, fn, args, kwargs, node, fr, caller_label=None, extra_env=None):
    """modular call: check requires, havoc modifies, assume ensures / fork raises."""
    env = dict(extra_env or {})
    eng.bind_params(fn, list(args), dict(kwargs), env, con.qual.split(".")[0], con.qual, node)
    caller = fr.qual if fr is not None else "?"
    short = con.qual.split(".", 1)[1] if "." in con.qual else con.qual
    ords = fr.call_ordinals if fr is not None else {}
    k = ords.get(short, 0) + 1
    ords[short] = k
    site = "%s/call:%s#%d" % (caller_label or eng.cur_func, short, k)
    eng.contracts_applied.add(con.qual)
    for nm, text in con.requires:
        v = eng.eval_spec(text, env, con.qual.split(".")[0])
        eng.oblige("%s/pre:%s" % (site, nm), eng.truth(v), clause=text, kind="call-pre")
    # the callee's body was verified assuming its class invariant at entry: the caller owes it (a helper that is called while the
    # invariant is temporarily broken must be declared assume_invariant=False and state what it needs in `requires`)
    recv0 = env.get("self")
    if isinstance(recv0, VObj) and con.assume_invariant and not con.fresh_self and not con.inline:
        for spec in all_specs(eng, recv0.cls):
            for nm, text in spec.invariants:
                eng.oblige("%s/pre:callee-invariant:%s" % (site, nm), eng.truth(eng.eval_spec(text, {"self": recv0}, spec.module)), clause=text, kind="call-pre")
    eng.emit("contract_call", con=con, env=env, site=site, node=node, frame=fr)
    old = eng.state.snapshot()
    # exceptional conditions are predicates of the PRE-state: evaluate them before anything is havocked
    raise_conds = [(exc, eng.truth(eng.eval_spec(cond, env, con.qual.split(".")[0], old=old))) for exc, cond in con.raises_when]
    for oid in owned_oids(eng, con, env, eng.state.heap):
        # fields of an owned sub-object may change too: an alias a caller kept must not see the old values
        for key, cur in list(eng.state.heap.items()):
            if key[0] == oid and not isinstance(cur, (VObj, VList)):
                eng.state.heap[key] = havoc_like(eng, cur, "owned." + key[1])
    for loc in con.modifies:
        if "." not in loc:
            # a container passed as argument and mutated in place
            havoc_like(eng, eng.force(env[loc]), loc)
            continue
        obj, field = resolve_location(eng, loc, env)
        cur = eng.state.heap.get((obj.oid, field))
        ty = field_type(eng, obj, field)
        if cur is None and ty is None:
            raise OutOfSubset("modifies %s: unknown field type" % loc, node)
        eng.state.heap[(obj.oid, field)] = havoc_like(eng, cur, loc, ty)
    # exceptional outcomes
    for exc, c in raise_conds:
        if eng.branch(c):
            if isinstance(env.get("self"), VObj) and con.check_invariant and con.modifies:
                assume_class_invariants(eng, env["self"])
            for nm, text in con.ensures_exc:
                eng.assume(eng.truth(eng.eval_spec(text, dict(env, raised=VBool(True)), con.qual.split(".")[0], old=old)))
            eng.emit("contract_raise", exc=exc, qual=con.qual, node=node)
            raise RaiseSig(VExc(exc, [eng.fresh_int("errno") if exc == "OSError" else eng.fresh_str("excmsg", False)]))
    declared_conditional = {e for e, _ in con.raises_when}
    for exc in con.raises:
        if exc in declared_conditional:
            continue
        if eng.branch(eng.fresh_bool("raises_" + exc.split(".")[-1]).t):
            if isinstance(env.get("self"), VObj) and con.check_invariant and con.modifies:
                assume_class_invariants(eng, env["self"])
            for nm, text in con.ensures_exc:
                eng.assume(eng.truth(eng.eval_spec(text, dict(env, raised=VBool(True)), con.qual.split(".")[0], old=old)))
            eng.emit("contract_raise", exc=exc, qual=con.qual, node=node)
            raise RaiseSig(VExc(exc, [eng.fresh_int("errno") if exc == "OSError" else eng.fresh_str("excmsg", False)]))
    if con.result_is is not None:
        result = eng.eval_spec(con.result_is, env, con.qual.split(".")[0], old=old)
    else:
        result = eng.fresh_of_type(con.returns, "ret_" + short) if con.returns is not None else NONE
    for fname, text in (getattr(con, "result_fields", None) or {}).items():
        # the returned object stores (aliases) these values: identity, not just equality
        eng.state.heap[(result.oid, fname)] = eng.eval_spec(text, env, con.qual.split(".")[0], old=old)
    env2 = dict(env, result=result, raised=VBool(False))
    recv = env.get("self")
    if isinstance(recv, VObj) and con.check_invariant and con.modifies:
        assume_class_invariants(eng, recv)
    eng.assuming = True
    try:
        for nm, text in con.ensures:
            if nm in getattr(con, "body_only", ()):
                continue        # proved on the body, not handed to callers (no caller clause needs it; keeps their path conditions small)
            eng.assume(eng.truth(eng.eval_spec(text, env2, con.qual.split(".")[0], old=old)))
    finally:
        eng.assuming = False
    return result


# -------------------------------------------------------------- verifying a body
def verify_function(eng, con, label=None, setup=None, extra_checks=None):
    """Generate the obligations of `con` for the body of the real function con.qual.
    Returns number of paths; obligations are appended to eng.obligations.
    Raises OutOfSubset if the body leaves the supported subset."""
    # an inherited method verified for a subclass: the contract is named after the subclass, the body is the base class's (`impl`)
    fn = eng.repo.find(getattr(con, "impl", None) or con.qual)
    if fn is None:
        raise OutOfSubset("function %s not found in the tree" % (getattr(con, "impl", None) or con.qual))
    modname = con.qual.split(".")[0]
    label = label or con.qual
    is_method = bool(fn.args.args) and fn.args.args[0].arg == "self"
    closure = con.closure_self is not None

    def run_once():
        eng.cur_func = label
        eng.cur_qual = con.qual
        env = {}
        self_obj = None
        if is_method or closure:
            cls = con.closure_self or con.cls or ".".join(con.qual.split(".")[:-1])
            self_obj = eng.new_obj(cls)
            if not con.fresh_self:
                spec = eng.reg.class_spec(cls)
                if spec is not None:
                    for fname, fty in spec.fields.items():
                        eng.state.heap[(self_obj.oid, fname)] = eng.fresh_of_type(fty, "self." + fname)
            env["self"] = self_obj
            eng.self_under_verification = self_obj
        eng.entry_env = None
        for p in fn.args.args[1 if is_method else 0:] + fn.args.kwonlyargs:
            if p.arg in con.params:
                env[p.arg] = eng.fresh_of_type(con.params[p.arg], p.arg)
        for nm, ty in con.free.items():
            env[nm] = eng.fresh_of_type(ty, nm)
        # defaults for undeclared params
        a = fn.args
        params = [p.arg for p in a.args]
        for i, p in enumerate(params):
            if p not in env and p != "self":
                di = i - (len(params) - len(a.defaults))
                if di >= 0:
                    env[p] = eng.eval(a.defaults[di], Frame(modname, con.qual, {}))
                else:
                    raise OutOfSubset("parameter %s of %s has no declared type" % (p, con.qual))
        if setup:
            setup(eng, env)
        if con.setup:
            con.setup(eng, env)
        for lf in con.entry_holds.get(getattr(eng, "role", None) or "", []):
            from .monitor import lock_of
            lk = lock_of(eng, eng.state.heap[(self_obj.oid, lf)])
            eng.state.ghost.setdefault("held", {})[lk.oid] = 1
        if self_obj is not None and con.assume_invariant and not con.fresh_self:
            assume_class_invariants(eng, self_obj)
        eng.assuming = True
        try:
            for nm, text in con.requires:
                eng.assume(eng.truth(eng.eval_spec(text, env, modname)))
        finally:
            eng.assuming = False
        old = eng.state.snapshot()
        old_env = dict(env)
        eng.entry_oids = {k[0] for k in old.heap} | {v.oid for v in old.heap.values() if isinstance(v, VObj)} | {v.oid for v in env.values() if isinstance(v, VObj)}
        fr = Frame(modname, con.qual, dict(env), self_obj)
        fr.depth = 0
        fr.old_state = old
        fr.entry_env = dict(env)
        eng.entry_env = dict(env)
        outcome = ("normal", NONE)
        eng.final_locals = fr.env
        body = fn.body
        seg = eng.segment
        if seg > 0:
            # start at cut `seg`: arbitrary current state satisfying the cut invariants (old() = the arbitrary entry state above)
            cut = con.cuts[seg - 1]
            for loc in con.modifies:
                obj, field = resolve_location(eng, loc, env)
                cur = eng.state.heap.get((obj.oid, field))
                ty = field_type(eng, obj, field)
                eng.state.heap[(obj.oid, field)] = havoc_like(eng, cur, loc, ty)
            cut_locals, cut_invs = cut.active(fn)
            for nm, ty in cut_locals.items():
                fr.env[nm] = eng.fresh_of_type(ty, nm)
            if cut.init:
                cut.init(eng, fr)
            eng.assuming = True
            try:
                if self_obj is not None:
                    assume_class_invariants(eng, self_obj)
                    eng.assuming = True
                for nm, text in cut_invs:
                    eng.assume(eng.truth(eng.eval_spec(text, dict(fr.env), modname, old=old, old_env=dict(env))))
            finally:
                eng.assuming = False
            k0 = cut_index(fn, cut, eng, modname)
            for st in fn.body[:k0]:
                if isinstance(st, ast.FunctionDef):
                    eng.exec(st, fr)         # nested helper functions defined before the cut stay visible
            body = fn.body[k0:]
        stop_at = None
        if seg < len(con.cuts):
            nxt = con.cuts[seg]
            stop_at = fn.body[cut_index(fn, nxt, eng, modname)]
        try:
            for st in body:
                if st is stop_at:
                    if self_obj is not None and con.check_invariant:
                        check_class_invariants(eng, self_obj, "%s/cut%d" % (label, seg + 1))
                    for nm, text in con.cuts[seg].active(fn)[1]:
                        eng.oblige("%s/cut%d:%s" % (label, seg + 1, nm),
                                   eng.truth(eng.eval_spec(text, dict(fr.env), modname, old=old, old_env=dict(env))), clause=text, kind="cut")
                    eng.exits = getattr(eng, "exits", 0) + 1
                    raise PathEnd("cut point")
                eng.exec(st, fr)
        except ReturnSig as r:
            outcome = ("normal", r.val)
        except RaiseSig as rs:
            outcome = ("raised", rs.exc)
        eng.exits = getattr(eng, "exits", 0) + 1
        if outcome[0] == "raised":
            exc = outcome[1]
            allowed = any(eng.exc_is_subclass(exc.cls, a) for a in con.raises)
            eng.oblige("%s/raises:%s" % (label, exc.cls.split(".")[-1].split(":")[0]), z3.BoolVal(allowed),
                       clause="only %s may escape" % (con.raises or "nothing"), kind="raises")
            env2 = dict(old_env, raised=VBool(True), exc=exc)
            for nm, text in con.ensures_exc:
                eng.oblige("%s/ensures-exc:%s" % (label, nm), eng.truth(eng.eval_spec(text, env2, modname, old=old)), clause=text, kind="ensures")
        else:
            env2 = dict(old_env, result=outcome[1], raised=VBool(False))
            for nm, text in con.ensures:
                eng.oblige("%s/ensures:%s" % (label, nm), eng.truth(eng.eval_spec(text, env2, modname, old=old)), clause=text, kind="ensures")
        if self_obj is not None and con.check_invariant:
            check_class_invariants(eng, self_obj, label)
        if con.frame_check:
            check_frame(eng, con, old, old_env, label)
        if extra_checks:
            extra_checks(eng, env2, old, outcome, label)

    eng.exits = 0
    eng.covered = set()
    n = 0
    for seg in range(len(con.cuts) + 1):
        if con.only_segments is not None and seg not in con.only_segments:
            continue
        eng.segment = seg
        n += eng.explore(run_once)
    # vacuity guard: which statements of the function's own body were reached by at least one path
    own = set()

    def collect(stmts):
        for st in stmts:
            if isinstance(st, ast.Expr) and isinstance(st.value, ast.Constant) and isinstance(st.value.value, str):
                continue          # docstring
            own.add(st.lineno)
            for fld in ("body", "orelse", "finalbody"):
                sub = getattr(st, fld, None)
                if isinstance(sub, list) and not isinstance(st, (ast.FunctionDef, ast.ClassDef)):
                    collect(sub)
            for h in getattr(st, "handlers", []):
                collect(h.body)
    collect(fn.body)
    text = eng.repo.text(modname).splitlines()
    ok_lines = set(con.unreachable_ok_lines(eng, fn))
    eng.unreached = sorted(l for l in own - eng.covered if "pragma: no" not in text[l - 1] and l not in ok_lines)
    if con.only_segments is not None:
        spans = []
        for seg in con.only_segments:
            a = cut_index(fn, con.cuts[seg - 1], eng, modname) if seg > 0 else 0
            b = cut_index(fn, con.cuts[seg], eng, modname) if seg < len(con.cuts) else len(fn.body)
            spans.append((fn.body[a].lineno, fn.body[b - 1].end_lineno if b > a else fn.body[a].lineno))
        eng.unreached = [l for l in eng.unreached if any(lo <= l <= hi for lo, hi in spans)]
    if eng.exits == 0 and not eng.truncated:
        raise OutOfSubset("vacuity guard: no path of %s reaches a function exit (contradictory contract or invariant?)" % con.qual)
    eng.exit_paths = eng.exits
    return n


def cut_index(fn, cut, eng, modname):
    text = eng.repo.text(modname).splitlines()
    for k, st in enumerate(fn.body):
        # the anchor may sit on any line of the statement's header (multi-line conditions), not inside its body
        first_body = getattr(st, "body", None)
        last = (first_body[0].lineno - 1) if isinstance(first_body, list) and first_body else getattr(st, "end_lineno", st.lineno)
        lines = [text[l - 1] for l in range(st.lineno, max(last, st.lineno) + 1)]
        if hasattr(cut.anchor, "search"):
            # a compiled pattern over the statement's header: survives rewrites of the rest of the condition
            if cut.anchor.search(" ".join(x.strip() for x in lines)):
                return k
        elif any(cut.anchor in x for x in lines):
            return k
    raise OutOfSubset("cut anchor %r is not a top-level statement of the function" % cut.anchor)


def owned_oids(eng, con, env, heap):
    """objects held (at the time `heap` was taken) in the contract's `owns` locations, transitively through object-valued fields:
    an owned sub-object is part of the owner's representation, `modifies owner.field` covers every field of it"""
    out, todo = set(), []
    for loc in getattr(con, "owns", ()) or ():
        try:
            obj, field = resolve_location(eng, loc, env)
        except Exception:
            continue
        todo.append(heap.get((obj.oid, field)))
    while todo:
        v = todo.pop()
        if isinstance(v, VOpt):
            v = v.val
        if isinstance(v, VObj) and v.oid not in out:
            out.add(v.oid)
            todo.extend(val for (oid, _f), val in heap.items() if oid == v.oid)
    return out


def check_frame(eng, con, old, env, label):
    """frame condition: every field (of an object that existed at entry) whose value differs from the entry state is
    covered by the contract's `modifies`; in-place mutation of a list/dict/set held in such a field counts as a change.
    Callers havoc exactly `modifies`, so a missing entry would make every caller's proof unsound."""
    allowed = set()
    for loc in con.modifies:
        try:
            obj, field = resolve_location(eng, loc, env)
            allowed.add((obj.oid, field))
        except Exception:
            pass
    # state shared under a monitor is havocked at every acquisition: callers never rely on it across a call
    for mon in getattr(eng.reg, "monitors", []) or []:
        me = getattr(eng, "self_under_verification", None)
        if me is not None:
            for f in mon.protected:
                allowed.add((me.oid, f))
    owned = owned_oids(eng, con, env, old.heap) | owned_oids(eng, con, env, eng.state.heap)
    changed = []
    entry_oids = getattr(eng, "entry_oids", set())
    for key, newv in eng.state.heap.items():
        if key[0] not in entry_oids:
            continue              # object first seen after entry (created, or an element drawn from a havocked container)
        if key not in old.heap:
            if key in getattr(eng, "lazy_init", {}) and eng.lazy_init[key] is newv:
                continue
            oid = key[0]
            if not any(k[0] == oid for k in old.heap) and key not in getattr(eng, "lazy_init", {}):
                continue          # object created during the call
            changed.append(key)
            continue
        oldv = old.heap[key]
        if same_value(eng, oldv, newv, old):
            continue
        changed.append(key)
    bad = sorted({"%s" % f for (oid, f) in changed if (oid, f) not in allowed and oid not in owned})
    for f in bad:
        eng.oblige("%s/frame:%s-not-in-modifies" % (label, f), z3.BoolVal(False),
                   clause="field .%s is written by the body but missing from the contract's modifies clause" % f, kind="frame")
    if not bad:
        eng.oblige("%s/frame:only-declared-locations-change" % label, z3.BoolVal(True), kind="frame")


def same_value(eng, a, b, old):
    if a is b:
        if isinstance(a, VList):
            return eng.state.lists.get(a.lid) is not None and _same_list(eng.state.lists[a.lid], old.lists.get(a.lid))
        if isinstance(a, pyvc.VDict):
            return _same_dict(eng.state.dicts[a.did], old.dicts.get(a.did))
        if isinstance(a, pyvc.VSet):
            return eng.state.sets[a.sid] == old.sets.get(a.sid) or all(x is y for x, y in zip(eng.state.sets[a.sid], old.sets.get(a.sid, (None, None))))
        return True
    for cls in (VInt, VBool, VStr):
        if isinstance(a, cls) and isinstance(b, cls):
            return z3.is_true(z3.simplify(a.t == b.t))
    if isinstance(a, VObj) and isinstance(b, VObj):
        return a.oid == b.oid
    if isinstance(a, pyvc.VNone) and isinstance(b, pyvc.VNone):
        return True
    if isinstance(a, VOpt) and isinstance(b, VOpt):
        return z3.is_true(z3.simplify(a.none == b.none)) and same_value(eng, a.val, b.val, old)
    if isinstance(a, VList) and isinstance(b, VList):
        return a.lid == b.lid and _same_list(eng.state.lists[a.lid], old.lists.get(a.lid))
    return False


def _same_list(new, oldm):
    if oldm is None:
        return False
    if new.items is not None and oldm.items is not None:
        return len(new.items) == len(oldm.items) and all(x is y for x, y in zip(new.items, oldm.items))
    if new.items is None and oldm.items is None:
        return (new.length is oldm.length or z3.is_true(z3.simplify(new.length == oldm.length))) and (new.seq is oldm.seq or (new.seq is not None and oldm.seq is not None and z3.is_true(z3.simplify(new.seq == oldm.seq)))) and len(new.elem_facts) == len(oldm.elem_facts)
    return False


def _same_dict(new, oldm):
    if oldm is None:
        return False
    if set(new.entries) != set(oldm.entries):
        # lazily materialised look-ups of an open dict are not writes
        for k in set(new.entries) - set(oldm.entries):
            pass
    for k, (p, v) in oldm.entries.items():
        if k not in new.entries:
            return False
        p2, v2 = new.entries[k]
        if not (p is p2 or z3.is_true(z3.simplify(p == p2))) or v is not v2:
            return False
    return len(getattr(new, "sym_entries", [])) == len(getattr(oldm, "sym_entries", [])) and new.open == oldm.open


def all_specs(eng, cls):
    out = []
    for c in eng.mro(cls):
        s = eng.reg.class_spec(c)
        if s is not None:
            out.append(s)
            if not s.inherit:
                break
    return out


def assume_class_invariants(eng, obj):
    eng.assuming = True
    try:
        for spec in all_specs(eng, obj.cls):
            for nm, text in spec.invariants + spec.assumed:
                eng.assume(eng.truth(eng.eval_spec(text, {"self": obj}, spec.module)))
    finally:
        eng.assuming = False


def check_class_invariants(eng, obj, label):
    for spec in all_specs(eng, obj.cls):
        for nm, text in spec.invariants:
            eng.oblige("%s/inv:%s" % (label, nm), eng.truth(eng.eval_spec(text, {"self": obj}, spec.module)), clause=text, kind="invariant")
