"""Run pyvc on a set of functions in parallel worker processes and aggregate the
results into report.Check obligations.  Each worker: build registry -> verify one
function body against its contract -> discharge its path queries -> return plain data."""
import importlib
import json
import multiprocessing as mp
import os
import time
from collections import OrderedDict

import z3

from . import smt
from .report import VERIF

LOCK = os.path.join(VERIF, "obligations.lock.json")


def load_lock():
    try:
        with open(LOCK) as f:
            return set(json.load(f)["discharged"])
    except Exception:
        return set()


def family(name):
    """Obligations that exist once per call site / per function belong to a family: the precondition `pre:n` of callee X at
    every call site, a discipline rule R1..R6 in every function.  A NEW member of a family that was discharged everywhere on
    the unchanged tree (a new call site, a new function touching a protected field) and is refuted now is a violation of
    the same contract clause, although that exact name never existed before."""
    import re
    m = re.search(r"/call:([^#/]+)#\d+/(pre:.+)$", name)
    if m:
        return "call:%s/%s" % (m.group(1), m.group(2))
    m = re.search(r"/(R\d(?:\[[^\]]*\])?:.+)$", name)
    if m:
        return m.group(1)
    return None


def proof_internal(name):
    """loop invariants, variants and cut assertions whose clause does not carry a property id (Cnn-...) in its name"""
    import re
    return re.search(r"/(loop\d+/(inv-entry|inv-preserved|variant|at-entry)|cut\d+)(:(?!C\d\d-)|$)", name) is not None


def build_registry(repo_root, contract_modules):
    from .contract import Registry
    from .source import Repo
    reg = Registry()
    reg.repo = Repo(repo_root)
    reg.install_std_specs()
    for m in contract_modules:
        importlib.import_module("contracts." + m).install(reg)
    return reg


def _work(job):
    repo_root, contract_modules, qual, timeout, hooks_mod = job
    role = None
    if isinstance(qual, tuple):
        qual, role = qual
    from .contract import verify_function
    from .pyvc import Engine, OutOfSubset
    t0 = time.time()
    out = {"qual": qual, "label": (qual + "@" + role) if role else qual, "obligations": [], "error": None, "paths": 0}
    try:
        for careful in (False, True):
            reg = build_registry(repo_root, contract_modules)
            eng = Engine(reg.repo, reg)
            eng.role = role
            # second attempt only: a failed obligation whose goal contradicts the path condition is not assumed afterwards
            # (otherwise it kills the path and everything behind it, and the function looks vacuous instead of wrong)
            eng.check_goal_consistency = careful
            con = reg.contract(qual)
            if con is None:
                raise OutOfSubset("no contract registered for %s" % qual)
            eng.max_paths = getattr(con, "max_paths", None) or eng.max_paths
            if hooks_mod:
                importlib.import_module(hooks_mod).attach(eng, reg, qual)
            try:
                out["paths"] = verify_function(eng, con, label=(qual + "@" + role) if role else None)
            except OutOfSubset as ex:
                if not careful and "vacuity guard" in str(ex):
                    continue
                raise
            if not careful and getattr(eng, "unreached", None):
                continue
            break
        out["label"] = (qual + "@" + role) if role else qual
        out["explore_s"] = round(time.time() - t0, 2)
        out["unreached"] = list(getattr(eng, "unreached", []))
        out["truncated"] = eng.truncated
        out["contracts_applied"] = sorted(eng.contracts_applied)
        out["notes"] = list(eng.notes)
        out["source_sha"] = reg.repo.func_source_hash(qual)
        if getattr(reg, "regex_facts", None) is not None:
            out["regex_facts"] = reg.regex_facts.log
    except OutOfSubset as ex:
        out["error"] = "out-of-subset: %s" % ex
        return out
    except Exception as ex:       # engine problems are never verdicts
        import traceback
        out["error"] = "engine-error: %r\n%s" % (ex, traceback.format_exc()[-1500:])
        return out
    contract_clauses = {nm for nm, _ in list(con.requires) + list(con.ensures) + list(con.ensures_exc)}
    try:
        from .contract import all_specs
        cls_q = con.closure_self or con.cls or ".".join(qual.split(".")[:-1])
        for sp in all_specs(eng, cls_q):
            contract_clauses.update(nm for nm, _ in list(sp.invariants) + list(getattr(sp, "assumed", [])))
    except Exception:
        pass
    for mon in getattr(reg, "monitors", None) or []:
        contract_clauses.update(nm for nm, _ in list(mon.invariants) + list(getattr(mon, "assumed", [])))
    out["contract_clauses"] = sorted(contract_clauses)
    groups = OrderedDict()
    for ob in eng.obligations:
        groups.setdefault(ob.name, []).append(ob)
    queries = []
    for name, obs in groups.items():
        for ob in obs:
            if z3.is_true(ob.goal):
                ob.query = None
                continue
            names = ["|%s|" % n for n in list(ob.vars)[:160]]
            ob.query = smt.Query(name, ob.pc + [z3.Not(ob.goal)], names)
            queries.append(ob.query)
    smt.decide_all(queries, timeout=timeout, workers=4, prefer="cvc5")
    if os.environ.get("VERIF_CROSS") == "1":
        # thorough tier: every `unsat` is put to the OTHER back end as well; `sat` there is a disagreement, never a pass
        smt.cross_check([q for q in queries if q.status == "unsat"], timeout=min(timeout, 10), workers=4)   # confirmation, not the verdict: short budget
    for name, obs in groups.items():
        qs = [ob.query for ob in obs if ob.query is not None]
        sat = [ob for ob in obs if ob.query is not None and ob.query.status == "sat"]
        unk = [ob for ob in obs if ob.query is not None and ob.query.status not in ("sat", "unsat")]
        rec = {"name": name, "clause": obs[0].clause, "kind": obs[0].kind, "paths": len(obs), "secs": round(sum(q.secs for q in qs), 3),
               "backends": sorted({q.backend for q in qs}) or ["simplifier"], "status": "discharged"}
        if qs and len([r for r in out["obligations"] if r.get("smt2_sample")]) < 2 and obs[0].kind in ("ensures", "call-pre", "invariant", "loop", "cut"):
            rec["smt2_sample"] = qs[0].text[:2500]       # one path query of this obligation, as given to the solver (evidence sample)
        dis = [ob for ob in obs if ob.query is not None and getattr(ob.query, "cross", None) == "sat"]
        if os.environ.get("VERIF_CROSS") == "1":
            rec["second_backend"] = {"confirmed": sum(1 for q in qs if getattr(q, "cross", None) == "unsat"),
                                     "unknown": sum(1 for q in qs if q.status == "unsat" and getattr(q, "cross", None) not in ("unsat", "sat")),
                                     "path_queries": len(qs)}
        if dis and not sat:
            rec["status"] = "unknown"
            rec["paths_unknown"] = len(dis)
            rec["disagreement"] = "%s says unsat, the other back end says sat on %d path queries" % (dis[0].query.backend, len(dis))
        elif sat:
            ob = sat[0]
            rec["status"] = "refuted"
            rec["model"] = {k.strip("|"): v for k, v in ob.query.model.items()}
            rec["solver_output"] = ob.query.raw[:2000]
            rec["paths_refuted"] = len(sat)
            rec["smt2_head"] = ob.query.text[:1500]
        elif unk:
            rec["status"] = "unknown"
            rec["paths_unknown"] = len(unk)
        out["obligations"].append(rec)
    out["total_s"] = round(time.time() - t0, 2)
    return out


def run_functions(ck, contract_modules, quals, timeout=20, hooks_mod=None, procs=None):
    if ck.tier == "thorough":
        os.environ["VERIF_CROSS"] = "1"         # inherited by the forked workers
    jobs = [(ck.repo.root, contract_modules, q, timeout, hooks_mod) for q in quals]
    procs = procs or min(len(jobs), max(1, (os.cpu_count() or 4) // 2))
    ctx = mp.get_context("fork")
    with ctx.Pool(procs) as pool:
        results = pool.map(_work, jobs, chunksize=1)
    return results


def report(ck, results, select=None, replayer=None, rename=None, also_used=()):
    """map worker results onto ck obligations.  select(name)->bool filters obligations of this property.
    also_used: contracts applied by callers verified in ANOTHER run of the same check (their frame conditions matter too)."""
    lock = load_lock()
    lock_families = {f for f in (family(n) for n in lock) if f}
    used = set(also_used)
    for res in results:
        used.update(res.get("contracts_applied", []))
    for res in results:
        q = res.get("label", res["qual"])
        ck.under_contract(res["qual"], role="body verified against its sidecar contract (%d paths)%s" % (res["paths"], (" as role " + q.split("@")[1]) if "@" in q else ""))
        for nt in res.get("notes", []):
            if nt not in ck.notes:
                ck.notes.append(nt)
        if res["error"]:
            ck.ob("%s/verification" % q, "undecided", backend="pyvc", detail={"reason": res["error"]})
            continue
        if res.get("truncated"):
            ck.ob("%s/exploration-complete" % q, "undecided", backend="pyvc-paths", detail={"reason": "path exploration stopped (%s): obligations below are only those of the explored paths" % res["truncated"]})
        cov_name = "%s/coverage:every-statement-reached" % q
        if select is None or select(cov_name):
            if res.get("unreached"):
                ck.ob(cov_name, "undecided", backend="pyvc-paths", kind="deductive",
                      detail={"reason": "vacuity guard: statements at lines %s of %s are reached by no symbolic path (contradictory contract, or dead code not declared in unreachable_ok)" % (res["unreached"], res["qual"])})
            else:
                ck.ob(cov_name, "discharged", backend="pyvc-paths", clause="vacuity guard: every statement of the function body is reached by at least one symbolic path",
                      queries=res["paths"])
        escaping = [r for r in res["obligations"] if r["kind"] == "raises" and r["status"] != "discharged"]
        summary_name = "%s/raises-only-declared" % q
        if (select is None or select(summary_name)) and not escaping:
            n_ok = sum(r["paths"] for r in res["obligations"] if r["kind"] == "raises")
            ck.ob(summary_name, "discharged", backend="pyvc-paths", clause="on every path no exception outside the contract's raises clause escapes",
                  queries=max(n_ok, 1), detail={"paths": res["paths"]})
        for rec in res["obligations"]:
            name = rec["name"]
            if select and not select(name):
                ck.extra.setdefault("obligations_left_to_other_properties", []).append(name)
                continue
            if rec["kind"] == "frame" and res["qual"] not in used:
                ck.extra.setdefault("frame_obligations_without_a_caller_in_this_run", []).append(name)
                continue      # frame conditions only matter for contracts some caller in this run relies on
            full = ck.prop + "/" + name
            if rec["kind"] == "raises" and (ck.prop + "/" + summary_name) in lock:
                lock = set(lock) | {full}
            backend = "+".join(rec["backends"])
            if rec["status"] == "discharged":
                if rec.get("smt2_sample") and len(ck.samples) < 4:
                    ck.samples.append({"obligation": full, "clause": rec["clause"], "path_queries": rec["paths"], "backend": backend,
                                       "one_path_query_smt2": rec["smt2_sample"]})
                ck.ob(name, "discharged", backend=backend, secs=rec["secs"], clause=rec["clause"], queries=rec["paths"],
                      detail={"second_backend": rec["second_backend"]} if rec.get("second_backend") else None)
                continue
            if rec["status"] == "unknown":
                ck.ob(name, "undecided", backend=backend, secs=rec["secs"], clause=rec["clause"], queries=rec["paths"],
                      detail={"reason": rec.get("disagreement") or "solver unknown/timeout on %d of %d path queries" % (rec["paths_unknown"], rec["paths"])})
                continue
            model = rec.get("model", {})
            rep = None
            if replayer is not None:
                try:
                    rep = replayer(name, rec, model)
                except Exception as ex:
                    rep = {"reproduced": False, "replay_error": repr(ex)}
            reproduced = bool(rep and rep.get("reproduced"))
            payload = {"kind": rec["kind"], "clause": rec["clause"], "function": q, "backend": backend, "solver_s": rec["secs"],
                       "model": model, "native": rep, "solver_output": rec.get("solver_output", ""),
                       "paths_refuted": rec.get("paths_refuted"), "paths_total": rec["paths"]}
            known = [e for e in ck.known_for(name) if e["status"] == "known"]
            what = "obligation refuted: %s  [clause: %s]" % (name, rec["clause"])
            if known:
                ck.fail(name, known[0]["key"], known[0]["what"], replay=payload, reproduced=reproduced)
                ck.ob(name, "known-finding", backend=backend, secs=rec["secs"], clause=rec["clause"], queries=rec["paths"], detail={"model": model})
            elif not reproduced and proof_internal(name) and name.rsplit(":", 1)[-1] not in set(res.get("contract_clauses", ())) and (full in lock):
                # a loop invariant / cut assertion without a property clause in it is part of the PROOF, tied to the shape of the code:
                # refuted alone it means "the proof needs adjusting", not "the property is broken".  Decided in Check.finish():
                # a violation if a property clause or a stand-in of this check fails as well, otherwise undecided
                ck.pending_internal.append((name, what, payload, backend, rec["secs"], rec["clause"], rec["paths"], model))
            elif reproduced or full in lock or family(full) in lock_families:
                if not reproduced and full not in lock:
                    what += "  [new member of the obligation family %r, every member of which was discharged on the unchanged tree]" % family(full)
                ck.fail(name, "refuted", what, replay=payload, reproduced=reproduced)
                ck.ob(name, "violated", backend=backend, secs=rec["secs"], clause=rec["clause"], queries=rec["paths"], detail={"model": model})
            else:
                ck.ob(name, "undecided", backend=backend, secs=rec["secs"], clause=rec["clause"], queries=rec["paths"],
                      detail={"reason": "refuted by the solver, but the counter-model did not replay on the real code and the obligation is not recorded "
                                        "as discharged in obligations.lock.json (it never passed on the unchanged tree)", "model": model, "native": rep})
