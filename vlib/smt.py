"""SMT back ends.  Queries are built with the z3 Python API (term construction only),
serialised to SMT-LIB 2 and decided by external solver processes:
    z3-new (5.1.0)  and  /usr/bin/cvc5 --strings-exp (1.0.3)
run as a portfolio; `unsat` from either discharges, `sat` yields a model (get-value),
disagreement is a checker failure.  In-process z3 is used only for cheap path
feasibility pruning during symbolic execution (never for verdicts).
"""
import os
import re
import subprocess
import tempfile
import time
from concurrent.futures import ThreadPoolExecutor

import z3

Z3_BIN = "z3-new"
CVC5_BIN = "/usr/bin/cvc5"


class BackendDisagreement(Exception):
    pass


def to_smt2(assertions, get_values=()):
    s = z3.Solver()
    for a in assertions:
        s.add(a)
    text = s.to_smt2()
    # z3 emits (check-sat) at the end; rebuild header/footer
    text = text.replace("(check-sat)", "").rstrip()
    lines = [l for l in text.splitlines() if not l.startswith("(set-info")]
    body = "\n".join(lines)
    out = ["(set-logic ALL)", "(set-option :produce-models true)", body, "(check-sat)"]
    if get_values:
        declared = set(re.findall(r"\(declare-fun (\|[^|]*\||[^\s()]+) \(\)", body))
        keep = [v for v in get_values if v in declared or v.strip("|") in declared]
        if keep:
            out.append("(get-value (%s))" % " ".join(keep))
    return "\n".join(out) + "\n"


def _run(cmd, text, timeout):
    t0 = time.time()
    try:
        p = subprocess.run(cmd, input=text, capture_output=True, text=True, timeout=timeout + 5)
        out = p.stdout.strip()
    except subprocess.TimeoutExpired:
        return "timeout", "", time.time() - t0
    first = out.splitlines()[0].strip() if out else ""
    if first not in ("sat", "unsat", "unknown"):
        if "timeout" in out or "interrupted" in out.lower() or "resource" in out.lower():
            first = "timeout"
        else:
            first = "error"
            out = out + "\n" + p.stderr[-500:]
    return first, out, time.time() - t0


def run_z3(text, timeout):
    return _run([Z3_BIN, "-smt2", "-in", "-T:%d" % int(timeout)], text, timeout)


def run_cvc5(text, timeout, fmf=False):
    cmd = [CVC5_BIN, "--lang=smt2", "--strings-exp", "--tlimit=%d" % int(timeout * 1000)]
    if fmf:
        cmd.append("--strings-fmf")
    # cvc5 1.0.3 does not know z3's (declare-datatypes) variants etc.; plain text is fine for our fragment
    return _run(cmd, text.replace("(set-option :produce-models true)", "(set-option :produce-models true)\n(set-option :incremental false)"), timeout)


def parse_values(out):
    """parse `((x v) (y v))` of get-value into {name: python value or text}"""
    m = out.find("((")
    if m < 0:
        return {}
    txt = out[m:]
    vals = {}
    # tokenise s-expression
    toks = re.findall(r'"(?:[^"]|"")*"|\(|\)|[^\s()]+', txt)
    pos = 0

    def parse():
        nonlocal pos
        t = toks[pos]
        pos += 1
        if t == "(":
            lst = []
            while toks[pos] != ")":
                lst.append(parse())
            pos += 1
            return lst
        return t
    try:
        tree = parse()
    except IndexError:
        return {}
    for item in tree:
        if isinstance(item, list) and len(item) == 2 and isinstance(item[0], str):
            vals[item[0]] = _pyval(item[1])
    return vals


def _unescape(s):
    s = s[1:-1].replace('""', '"')

    def rep(m):
        return chr(int(m.group(1) or m.group(2), 16))
    return re.sub(r"\\u\{([0-9a-fA-F]+)\}|\\u([0-9a-fA-F]{4})", rep, s)


def _pyval(v):
    if isinstance(v, str):
        if v.startswith('"'):
            return _unescape(v)
        if v in ("true", "false"):
            return v == "true"
        if re.fullmatch(r"-?\d+", v):
            return int(v)
        return v
    if isinstance(v, list):
        if len(v) == 2 and v[0] == "-" and isinstance(v[1], str) and v[1].isdigit():
            return -int(v[1])
        return [_pyval(x) for x in v]
    return v


class Query:
    def __init__(self, name, assertions, values=(), meta=None):
        self.name = name
        self.text = to_smt2(assertions, values)
        self.meta = meta or {}
        self.status = None
        self.backend = None
        self.secs = 0.0
        self.model = {}
        self.raw = ""


def decide(q, timeout=20, prefer="z3"):
    """portfolio: first solver, then the other on unknown/timeout."""
    order = [("z3", run_z3), ("cvc5", run_cvc5)]
    if prefer == "cvc5":
        order.reverse()
    verdicts = []
    total = 0.0
    for nm, fn in order:
        t = timeout if nm == order[0][0] else timeout
        st, out, secs = fn(q.text, t)
        total += secs
        verdicts.append((nm, st))
        if st in ("sat", "unsat"):
            q.status, q.backend, q.raw = st, nm, out
            if st == "sat":
                q.model = parse_values(out)
            break
    else:
        q.status = "unknown"
        q.backend = "+".join("%s:%s" % v for v in verdicts)
        if os.environ.get("VERIF_DUMP_UNKNOWN"):
            import re as _re
            with open(os.path.join(os.environ["VERIF_DUMP_UNKNOWN"], _re.sub(r"[^A-Za-z0-9_.-]", "_", q.name)[-120:] + ".%08x.smt2" % (hash(q.text) & 0xffffffff)), "w") as f:
                f.write(q.text)
    q.secs = total
    return q


def decide_all(queries, timeout=20, workers=None, prefer="z3"):
    workers = workers or min(16, (os.cpu_count() or 4))
    with ThreadPoolExecutor(max_workers=workers) as ex:
        list(ex.map(lambda q: decide(q, timeout, prefer), queries))
    return queries


# ---------------------------------------------------------------- path pruning
_feas_cache = {}
STATS = {"feas_calls": 0, "feas_secs": 0.0, "feas_cvc5": 0}


def cross_check(queries, timeout=20, workers=None):
    """put each already-`unsat` query to the back end that did NOT answer it; q.cross = unsat | sat | unknown"""
    workers = workers or min(16, (os.cpu_count() or 4))

    def one(q):
        fn = run_z3 if (q.backend or "").startswith("cvc5") else run_cvc5
        st, out, secs = fn(q.text, timeout)
        q.cross = st if st in ("sat", "unsat") else "unknown"
        q.cross_secs = secs
        return q
    with ThreadPoolExecutor(max_workers=workers) as ex:
        list(ex.map(one, queries))
    return queries


def _has_strings(assertions):
    seen = set()
    stack = list(assertions)
    n = 0
    while stack:
        t = stack.pop()
        i = t.get_id()
        if i in seen:
            continue
        seen.add(i)
        n += 1
        if z3.is_seq(t) or z3.is_re(t):
            return True
        stack.extend(t.children())
    return False


def feasible(assertions, timeout_ms=1500):
    """True unless a solver proves the conjunction unsat quickly (unknown -> feasible).
    Pure integer/boolean path conditions: in-process z3.  Anything with strings: cvc5 process
    (in-process z3 does not honour its timeout on sequence constraints)."""
    t0 = time.time()
    STATS["feas_calls"] += 1
    try:
        if not _has_strings(assertions):
            s = z3.Solver()
            s.set("timeout", timeout_ms)
            for a in assertions:
                s.add(a)
            return s.check() != z3.unsat
        text = to_smt2(assertions)
        key = hash(text)
        if key in _feas_cache:
            return _feas_cache[key]
        STATS["feas_cvc5"] += 1
        st, out, secs = run_cvc5(text, timeout_ms / 1000.0)
        r = st != "unsat"
        _feas_cache[key] = r
        return r
    finally:
        STATS["feas_secs"] += time.time() - t0
