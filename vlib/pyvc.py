"""pyvc -- verification-condition generation from the real waitress source.

Forward symbolic execution of the function's own AST (re-read every run) with
explicit path enumeration (decision-vector re-execution), contracts from sidecar
files, loop cutting by invariants, modular calls (callee contract, not body, unless
the callee is marked inline), demonic environment calls, and exception flow.
Obligations are collected as (name, path condition, goal) and discharged by
vlib.smt (cvc5 / z3 as external processes).

Python semantics assumed: see DESIGN.md section 3.  Anything outside the subset
raises OutOfSubset -> the function is reported undecided, never proved.
"""
import ast
import itertools

import z3

from . import smt

# --------------------------------------------------------------------- values


class V:
    pass


class VInt(V):
    def __init__(self, t):
        self.t = t if z3.is_expr(t) else z3.IntVal(int(t))

    def __repr__(self):
        return "VInt(%s)" % self.t


class VBool(V):
    def __init__(self, t):
        self.t = t if z3.is_expr(t) else z3.BoolVal(bool(t))

    def __repr__(self):
        return "VBool(%s)" % self.t


class VStr(V):
    def __init__(self, t, is_bytes):
        if isinstance(t, (bytes, bytearray)):
            t = z3.StringVal(bytes(t).decode("latin-1"))
        elif isinstance(t, str):
            t = z3.StringVal(t)
        self.t = t
        self.bytes = is_bytes

    def __repr__(self):
        return "VStr(%s%s)" % ("b" if self.bytes else "", self.t)


class VNone(V):
    def __repr__(self):
        return "VNone"


NONE = VNone()


class VObj(V):
    def __init__(self, oid, cls):
        self.oid, self.cls = oid, cls

    def __repr__(self):
        return "VObj(%s#%s)" % (self.cls, self.oid)


class VTuple(V):
    def __init__(self, items):
        self.items = list(items)

    def __repr__(self):
        return "VTuple(%r)" % (self.items,)


class VList(V):
    """reference to a list model in state.lists"""
    def __init__(self, lid):
        self.lid = lid

    def __repr__(self):
        return "VList(#%s)" % self.lid


class VDict(V):
    def __init__(self, did):
        self.did = did


class VSet(V):
    """finite set of ints: membership array + cardinality ghost (state.sets[sid] = (member Array, card Int))"""
    def __init__(self, sid):
        self.sid = sid


class VSeq(V):
    """ghost mathematical sequence of ints (z3 Seq Int)"""
    def __init__(self, t):
        self.t = t

    def __repr__(self):
        return "VSeq(%s)" % self.t


class VOpt(V):
    """possibly None: none is a z3 Bool; val is the value when not None"""
    def __init__(self, none, val):
        self.none, self.val = none, val


class VOpaque(V):
    def __init__(self, tag, truth=None):
        self.tag = tag
        self.truth = truth      # optional z3 Bool giving its truthiness

    def __repr__(self):
        return "VOpaque(%s)" % self.tag


class VExc(V):
    def __init__(self, cls, args=(), obj=None):
        self.cls, self.args, self.obj = cls, list(args), obj

    def __repr__(self):
        return "VExc(%s)" % self.cls


class VFunc(V):
    def __init__(self, kind, **kw):
        self.kind = kind
        self.__dict__.update(kw)

    def __repr__(self):
        return "VFunc(%s %s)" % (self.kind, getattr(self, "name", ""))


class VClass(V):
    def __init__(self, qual):
        self.qual = qual

    def __repr__(self):
        return "VClass(%s)" % self.qual


class VModule(V):
    def __init__(self, name):
        self.name = name


# ------------------------------------------------------------ control signals
class Sig(Exception):
    pass


class ReturnSig(Sig):
    def __init__(self, val):
        self.val = val


class BreakSig(Sig):
    pass


class ContinueSig(Sig):
    pass


class RaiseSig(Sig):
    def __init__(self, exc):
        self.exc = exc


class PathEnd(Sig):
    """path cut (loop body end after invariant re-established, or infeasible)"""
    def __init__(self, why=""):
        self.why = why


class OutOfSubset(Exception):
    def __init__(self, what, node=None):
        self.what = what
        self.lineno = getattr(node, "lineno", None)
        Exception.__init__(self, "%s (line %s)" % (what, self.lineno))


# ---------------------------------------------------------- exception hierarchy
BUILTIN_EXC = {
    "BaseException": None, "Exception": "BaseException", "ArithmeticError": "Exception", "LookupError": "Exception",
    "IndexError": "LookupError", "KeyError": "LookupError", "ValueError": "Exception", "UnicodeError": "ValueError",
    "UnicodeDecodeError": "UnicodeError", "UnicodeEncodeError": "UnicodeError", "TypeError": "Exception",
    "AttributeError": "Exception", "AssertionError": "Exception", "RuntimeError": "Exception",
    "NotImplementedError": "RuntimeError", "OSError": "Exception", "StopIteration": "Exception",
    "SystemExit": "BaseException", "KeyboardInterrupt": "BaseException", "GeneratorExit": "BaseException",
    "ConnectionError": "OSError", "BrokenPipeError": "ConnectionError", "ConnectionResetError": "ConnectionError",
    "OverflowError": "ArithmeticError", "NameError": "Exception", "ZeroDivisionError": "ArithmeticError",
    "socket.error": "OSError", "Warning": "Exception", "DeprecationWarning": "Warning", "ResourceWarning": "Warning",
}


# ----------------------------------------------------------------- obligations
class Obligation:
    def __init__(self, name, pc, goal, clause, kind, func, path_id, vars_):
        self.name, self.pc, self.goal, self.clause = name, list(pc), goal, clause
        self.kind, self.func, self.path_id = kind, func, path_id
        self.vars = vars_          # name -> z3 const, for models
        self.query = None


# ------------------------------------------------------------------ list model
class ListModel:
    """Python list.  Either concrete spine (items: list of V) or abstract:
    symbolic length + element facts (`elem_facts`: list of callables V->z3 Bool holding for every element)
    + element maker."""
    def __init__(self, items=None, length=None, make_elem=None, elem_facts=None, tag="list"):
        self.items = items            # concrete spine or None
        self.length = length          # z3 Int when abstract
        self.make_elem = make_elem
        self.elem_facts = list(elem_facts or [])
        self.tag = tag
        self.seq = None               # optional z3 Seq term mirroring the content (ghost sequences)

    def copy(self):
        m = ListModel(list(self.items) if self.items is not None else None, self.length, self.make_elem, self.elem_facts, self.tag)
        m.seq = self.seq
        if hasattr(self, "elem_ty"):
            m.elem_ty = self.elem_ty
        return m


class DictModel:
    """dict with string keys: concrete key table (key python str -> (present z3 Bool, V)) plus
    an 'others' abstraction (unknown further keys allowed if open)."""
    def __init__(self, entries=None, open_=False, make_val=None, tag="dict"):
        self.entries = dict(entries or {})
        self.open = open_
        self.make_val = make_val
        self.tag = tag

    def copy(self):
        m = DictModel(dict(self.entries), self.open, self.make_val, self.tag)
        m.origin = getattr(self, "origin", None)
        if hasattr(self, "sym_reads"):
            m.sym_reads = dict(self.sym_reads)
        if hasattr(self, "sym_entries"):
            m.sym_entries = list(self.sym_entries)
        return m


# ------------------------------------------------------------------------ state
class State:
    def __init__(self):
        self.heap = {}       # (oid, field) -> V
        self.lists = {}      # lid -> ListModel
        self.dicts = {}
        self.sets = {}
        self.pc = []
        self.ghost = {}      # free-form ghost store (name -> V or python value)
        self.events = []     # discipline events (kind, payload)

    def snapshot(self):
        s = State()
        s.heap = dict(self.heap)
        s.lists = {k: v.copy() for k, v in self.lists.items()}
        s.dicts = {k: v.copy() for k, v in self.dicts.items()}
        s.sets = dict(self.sets)
        s.pc = list(self.pc)
        s.ghost = dict(self.ghost)
        return s


class Frame:
    def __init__(self, modname, qual, env, self_val=None):
        self.modname, self.qual, self.env, self.self_val = modname, qual, env, self_val
        self.loop_ordinal = 0
        self.call_ordinals = {}


def zbool(x):
    return x if z3.is_expr(x) else z3.BoolVal(bool(x))


def simp(t):
    return z3.simplify(t)


def is_true(t):
    return z3.is_true(simp(t))


def is_false(t):
    return z3.is_false(simp(t))


class Engine:
    def __init__(self, repo, registry, feas_timeout_ms=800, max_paths=1500):
        self.repo = repo
        self.reg = registry
        self.feas_timeout_ms = feas_timeout_ms
        self.max_paths = max_paths
        self.obligations = []
        self.path_count = 0
        self.hooks = []            # discipline hook objects
        self.truncated = None
        self.contracts_applied = set()
        self.lazy_init = {}
        self.lazy_dict_init = {}
        self.covered = set()
        self.notes = []
        self._fresh = itertools.count()
        self.cur_func = None
        self.state = None
        self.vars = {}

    def cur_func_qual(self):
        return getattr(self, "cur_qual", None)

    def regex_group(self, mo, key, node=None):
        from .builtins_model import _regex_group
        return _regex_group(self, mo, key, node)

    # -------------------------------------------------------------- fresh values
    def fresh_name(self, base):
        return "%s!%d" % (base, next(self._fresh))

    def fresh_int(self, base):
        n = self.fresh_name(base)
        c = z3.Int(n)
        self.vars[n] = c
        return VInt(c)

    def fresh_bool(self, base):
        n = self.fresh_name(base)
        c = z3.Bool(n)
        self.vars[n] = c
        return VBool(c)

    def fresh_str(self, base, is_bytes):
        n = self.fresh_name(base)
        c = z3.String(n)
        self.vars[n] = c
        return VStr(c, is_bytes)

    def new_obj(self, cls):
        return VObj(next(self._fresh), cls)

    def new_list(self, model):
        lid = next(self._fresh)
        self.state.lists[lid] = model
        return VList(lid)

    def new_dict(self, model):
        did = next(self._fresh)
        if getattr(model, "origin", None) is None:
            model.origin = did
        self.state.dicts[did] = model
        return VDict(did)

    def dict_lazy_entry(self, m, ck):
        """first look-up of key ck in an OPEN symbolic dict: the (presence, value) pair of the dict's initial content, created once
        per path and shared by every copy / snapshot derived from the same original dict"""
        key = (getattr(m, "origin", None), ck)
        ent = self.lazy_dict_init.get(key)
        if ent is None:
            p = self.fresh_bool("has[%s]" % ck).t
            val = m.make_val(ck) if m.make_val else VOpaque("dictval")
            ent = (p, val)
            self.lazy_dict_init[key] = ent
        m.entries[ck] = ent
        return ent

    def fresh_of_type(self, ty, base):
        """ty: type descriptor from contracts (see contract.py)"""
        k = ty[0]
        if k == "int":
            return self.fresh_int(base)
        if k == "bool":
            return self.fresh_bool(base)
        if k == "bytes":
            v = self.fresh_str(base, True)
            return v
        if k == "str":
            return self.fresh_str(base, False)
        if k == "str1":
            v = self.fresh_str(base, False)
            v.l1 = True
            return v
        if k == "none":
            return NONE
        if k == "opt":
            b = self.fresh_bool(base + "_isnone")
            return VOpt(b.t, self.fresh_of_type(ty[1], base))
        if k == "obj":
            o = self.new_obj(ty[1])
            if len(ty) > 2 and ty[2] == "lazy":
                o.symbolic = True
                return o      # fields materialise on first read; class invariants are NOT assumed (fewer facts: sound)
            self.init_symbolic_object(o, base)
            return o
        if k == "opaque":
            v = VOpaque(ty[1] if len(ty) > 1 else base)
            if v.tag.startswith("non"):
                v.types = frozenset()       # e.g. Opaque("nonstr"): a value that is an instance of none of the types tested
            return v
        if k == "list":
            ln = self.fresh_int(base + "_len")
            self.assume(ln.t >= 0)
            elem_ty = ty[1]
            m = ListModel(None, ln.t, (lambda i, _b=base, _t=elem_ty: self.fresh_of_type(_t, _b + "_elem")), [], base)
            return self.new_list(m)
        if k == "tuple":
            return VTuple([self.fresh_of_type(t, "%s_%d" % (base, i)) for i, t in enumerate(ty[1])])
        if k == "dict":
            return self.new_dict(DictModel({}, True, (lambda key, _b=base, _t=ty[1]: self.fresh_of_type(_t, _b + "[" + key + "]")), base))
        if k == "intset":
            n = self.fresh_name(base + "_member")
            arr = z3.Array(n, z3.IntSort(), z3.BoolSort())
            card = self.fresh_int(base + "_card")
            self.assume(card.t >= 0)
            sid = next(self._fresh)
            self.state.sets[sid] = (arr, card.t)
            return VSet(sid)
        if k == "seq":
            n = self.fresh_name(base)
            c = z3.Const(n, z3.SeqSort(z3.IntSort()))
            self.vars[n] = c
            return VSeq(c)
        if k == "glist":
            # list of (opaque) objects mirrored by a ghost sequence of their identities
            n = self.fresh_name(base + "_seq")
            sq = z3.Const(n, z3.SeqSort(z3.IntSort()))
            self.vars[n] = sq
            elem_ty = ty[1]
            eng = self

            def mk(i, _b=base, _t=elem_ty, _sq=sq):
                x = eng.fresh_of_type(_t, _b + "_elem")
                from .builtins_model import elem_id
                eng.assume(elem_id(eng, x) == _sq[i])
                return x
            m = ListModel(None, z3.Length(sq), mk, [], base)
            m.seq = sq
            m.elem_ty = elem_ty
            return self.new_list(m)
        if k == "strset":
            # finite set of known strings with symbolic membership (a closed map name -> presence)
            ents = {nm: (self.fresh_bool("%s[%s]" % (base, nm)).t, NONE) for nm in ty[1]}
            return self.new_dict(DictModel(ents, False, None, "strset"))
        if k == "oneof":
            # union of object classes: split by decision
            for i, alt in enumerate(ty[1][:-1]):
                b = self.fresh_bool("%s_is_%d" % (base, i))
                if self.branch(b.t):
                    return self.fresh_of_type(alt, base)
            return self.fresh_of_type(ty[1][-1], base)
        raise OutOfSubset("type descriptor %r" % (ty,))

    def init_symbolic_object(self, obj, base):
        spec = self.reg.class_spec(obj.cls)
        if spec is None:
            return
        for fname, fty in spec.fields.items():
            self.state.heap[(obj.oid, fname)] = self.fresh_of_type(fty, "%s.%s" % (base, fname))
        prev = getattr(self, "assuming", False)
        self.assuming = True       # invariants of a symbolic object are assumptions: container-shape facts are installed
        try:
            for nm, text in spec.invariants:
                v = self.eval_spec(text, {"self": obj}, spec.module)
                self.assume(self.truth(v))
        finally:
            self.assuming = prev

    # ------------------------------------------------------------ path machinery
    def assume(self, cond):
        cond = zbool(cond)
        if is_true(cond):
            return
        self.state.pc.append(cond)

    def branch(self, cond):
        cond = simp(zbool(cond))
        if z3.is_true(cond):
            return True
        if z3.is_false(cond):
            return False
        if self.pos < len(self.decisions):
            d = self.decisions[self.pos]
            self.pos += 1
        else:
            t_ok = smt.feasible(self.state.pc + [cond], self.feas_timeout_ms)
            f_ok = smt.feasible(self.state.pc + [z3.Not(cond)], self.feas_timeout_ms)
            if t_ok and f_ok:
                self.alts.append(self.decisions[:self.pos] + [False])
                d = True
            elif t_ok:
                d = True
            elif f_ok:
                d = False
            else:
                raise PathEnd("infeasible")
            self.decisions.append(d)
            self.pos += 1
        self.state.pc.append(cond if d else z3.Not(cond))
        return d

    def choose(self, n, label="choice"):
        """demonic n-way choice (no condition): returns 0..n-1"""
        for i in range(n - 1):
            b = self.fresh_bool(label)
            if self.branch(b.t):
                return i
        return n - 1

    def explore(self, run_once):
        """run_once() executes one path using self.branch(); explores all paths."""
        stack = [[]]
        n = 0
        while stack:
            prefix = stack.pop()
            self.decisions = list(prefix)
            self.pos = 0
            self.alts = []
            self._fresh = itertools.count()
            self.state = State()
            self.vars = {}
            self.lazy_init = {}
            self.lazy_dict_init = {}
            self.path_id = n
            try:
                run_once()
            except PathEnd:
                pass
            stack.extend(self.alts)
            n += 1
            if n > self.max_paths:
                # stop exploring: obligations collected so far are still discharged (a refutation on a real path stands),
                # but the function can no longer be reported as proved
                self.truncated = "more than %d paths" % self.max_paths
                break
        self.path_count += n
        return n

    def oblige(self, name, goal, clause="", kind="assert"):
        goal = zbool(goal)
        g = simp(goal)
        ob = Obligation(name, self.state.pc, g, clause, kind, self.cur_func, self.path_id, dict(self.vars))
        self.obligations.append(ob)
        # continue under the assumption that it holds (avoid cascades) -- unless the goal is inconsistent with the path
        # condition (the obligation fails on EVERY state of this path): assuming it would silently kill the path and
        # hide everything after it behind a contradictory path condition
        if not z3.is_true(g) and not z3.is_false(g):
            if not getattr(self, "check_goal_consistency", False) or smt.feasible(self.state.pc + [g], self.feas_timeout_ms):
                self.state.pc.append(g)
        # a literally-false goal is reported; execution continues without assuming it

    def emit(self, kind, **payload):
        self.state.events.append((kind, payload))
        for h in self.hooks:
            fn = getattr(h, "on_" + kind, None)
            if fn:
                fn(self, **payload)

    # ------------------------------------------------------------------- truth
    def truth(self, v):
        """python truthiness as z3 Bool"""
        if isinstance(v, VBool):
            return v.t
        if isinstance(v, VInt):
            return v.t != 0
        if isinstance(v, VStr):
            return z3.Length(v.t) > 0
        if isinstance(v, VNone):
            return z3.BoolVal(False)
        if isinstance(v, VOpt):
            return z3.And(z3.Not(v.none), self.truth(v.val))
        if isinstance(v, VTuple):
            return z3.BoolVal(len(v.items) > 0)
        if isinstance(v, VList):
            m = self.state.lists[v.lid]
            if m.items is not None:
                return z3.BoolVal(len(m.items) > 0)
            return m.length > 0
        if isinstance(v, VSet):
            return self.state.sets[v.sid][1] > 0
        if isinstance(v, VSeq):
            return z3.Length(v.t) > 0
        if isinstance(v, VDict):
            m = self.state.dicts[v.did]
            if not m.open:
                return z3.Or([p for p, _ in m.entries.values()]) if m.entries else z3.BoolVal(False)
            return self.fresh_bool("dict_truth").t
        if isinstance(v, VObj):
            cls = self.reg.class_spec(v.cls)
            if cls is not None and cls.truth is not None:
                return self.truth(self.eval_spec(cls.truth, {"self": v}, cls.module))
            # user classes without __bool__/__len__ are truthy; with __len__ we need the contract
            if self.find_method(v.cls, "__bool__") or self.find_method(v.cls, "__len__"):
                r = self.call_method(v, "__bool__" if self.find_method(v.cls, "__bool__") else "__len__", [], {}, None)
                return self.truth(r)
            return z3.BoolVal(True)
        if isinstance(v, VOpaque):
            if v.truth is None:
                v.truth = self.fresh_bool("truth_" + v.tag).t
            return v.truth
        if isinstance(v, (VFunc, VClass, VModule, VExc)):
            return z3.BoolVal(True)
        raise OutOfSubset("truth of %r" % (v,))

    def force(self, v):
        """resolve VOpt by branching (in contract expressions: no branching -- the value is used as if present;
        contract authors guard such uses with `x is not None`)"""
        if getattr(self, "spec_depth", 0) > 0:
            while isinstance(v, VOpt):
                v = v.val
            return v
        while isinstance(v, VOpt):
            if self.branch(v.none):
                return NONE
            v = v.val
        return v

    # ---------------------------------------------------------- class knowledge
    def class_node(self, qual):
        return self.repo.find(qual)

    def bases(self, qual):
        mod, cls = qual.split(".", 1)
        node = self.class_node(qual)
        out = []
        if node is None:
            return out
        for b in node.bases:
            name = ast.unparse(b)
            r = self.resolve_name_static(mod, name)
            if isinstance(r, VClass):
                out.append(r.qual)
            else:
                out.append(name)
        return out

    def mro(self, qual):
        out = [qual]
        for b in self.bases(qual):
            for x in (self.mro(b) if "." in b and self.class_node(b) is not None else [b]):
                if x not in out:
                    out.append(x)
        return out

    def find_method(self, cls, name):
        for c in self.mro(cls):
            node = self.class_node(c) if "." in c else None
            if node is None:
                continue
            for n in node.body:
                if isinstance(n, ast.FunctionDef) and n.name == name:
                    return c, n
                if isinstance(n, ast.Assign) and any(isinstance(t, ast.Name) and t.id == name for t in n.targets) and isinstance(n.value, ast.Name):
                    # alias like `__next__ = next`
                    for n2 in node.body:
                        if isinstance(n2, ast.FunctionDef) and n2.name == n.value.id:
                            return c, n2
        return None

    def class_attr_default(self, cls, name):
        for c in self.mro(cls):
            node = self.class_node(c) if "." in c else None
            if node is None:
                continue
            for n in node.body:
                if isinstance(n, ast.Assign) and any(isinstance(t, ast.Name) and t.id == name for t in n.targets):
                    return c, n.value
        return None

    def exc_is_subclass(self, cls, base):
        """cls, base: names ('ParsingError', 'parser.ParsingError', 'OSError', ...)"""
        seen = set()
        cur = [cls]
        while cur:
            c = cur.pop()
            if c in seen:
                continue
            seen.add(c)
            if c == base or c.split(".")[-1] == base.split(".")[-1]:
                return True
            if c in BUILTIN_EXC:
                if BUILTIN_EXC[c]:
                    cur.append(BUILTIN_EXC[c])
            elif "." in c and self.class_node(c) is not None:
                cur.extend(self.bases(c))
            else:
                cur.append("Exception")
        return False

    def resolve_name_static(self, modname, name):
        """module-level name -> VClass / VFunc / VModule / constant value (V) / None"""
        tree = self.repo.tree(modname)
        head = name.split(".")[0]
        rest = name.split(".")[1:]
        for n in ast.walk(tree) if False else tree.body + [x for b in tree.body if isinstance(b, (ast.If, ast.Try)) for x in b.body]:
            if isinstance(n, ast.ClassDef) and n.name == head and not rest:
                return VClass(modname + "." + head)
            if isinstance(n, ast.FunctionDef) and n.name == head and not rest:
                return VFunc("function", modname=modname, node=n, name=modname + "." + head)
            if isinstance(n, ast.ImportFrom):
                for a in n.names:
                    if (a.asname or a.name) == head:
                        src = (n.module or "")
                        if src.startswith("waitress.") or (n.level and src) or src == "waitress":
                            sub = src.split(".")[-1] if src not in ("waitress", "") else a.name
                            if src in ("waitress", "") or (n.level and not src):
                                r = VModule(a.name)
                            else:
                                r = self.resolve_name_static(sub, a.name)
                            if rest and isinstance(r, VModule):
                                return self.resolve_name_static(r.name, ".".join(rest))
                            return r
                        if n.level and not src:
                            r = VModule(a.name)
                            if rest:
                                return self.resolve_name_static(a.name, ".".join(rest))
                            return r
                        try:        # a plain constant imported from the standard library (errno.EWOULDBLOCK, ...) is that constant
                            import importlib
                            cval = getattr(importlib.import_module(src), a.name)
                            if isinstance(cval, (bool, int, str, bytes)) and not rest:
                                return self.const(cval)
                        except Exception:
                            pass
                        return VFunc("external", name=src + "." + a.name)
            if isinstance(n, ast.Import):
                for a in n.names:
                    if (a.asname or a.name.split(".")[0]) == head:
                        return VFunc("external", name=".".join([a.name] + rest)) if rest else VModule("ext:" + a.name)
            if isinstance(n, ast.Assign) and any(isinstance(t, ast.Name) and t.id == head for t in n.targets) and not rest:
                return ("const-node", n.value)
        return None

    # -------------------------------------------------------------- expressions
    def const(self, val, node=None):
        if isinstance(val, bool):
            return VBool(val)
        if isinstance(val, int):
            return VInt(val)
        if isinstance(val, bytes):
            return VStr(val, True)
        if isinstance(val, str):
            return VStr(val, False)
        if val is None:
            return NONE
        if isinstance(val, tuple):
            return VTuple([self.const(x) for x in val])
        if isinstance(val, float):
            return VOpaque("float")
        if val is Ellipsis:
            return VOpaque("ellipsis")
        raise OutOfSubset("constant %r" % (val,), node)

    def eval(self, node, fr):
        m = getattr(self, "e_" + type(node).__name__, None)
        if m is None:
            raise OutOfSubset("expression %s" % type(node).__name__, node)
        return m(node, fr)

    def e_Constant(self, node, fr):
        return self.const(node.value, node)

    def e_Name(self, node, fr):
        if node.id in fr.env:
            return fr.env[node.id]
        if node.id in ("True", "False", "None"):
            return self.const({"True": True, "False": False, "None": None}[node.id])
        sp = self.reg.spec_funcs.get(node.id)
        if sp is not None and fr.qual.startswith("<spec"):
            return VFunc("spec", fn=sp, name=node.id)
        r = self.resolve_name_static(fr.modname, node.id) if not fr.modname.startswith("<") else None
        if r is None:
            if node.id in BUILTIN_EXC:
                return VClass(node.id)
            if node.id in BUILTIN_FUNCS:
                return VFunc("builtin", name=node.id)
            if sp is not None:
                return VFunc("spec", fn=sp, name=node.id)
            fdef = self.repo.find(fr.qual) if "." in (fr.qual or "") and not fr.qual.startswith("<") else None
            if fdef is not None and any(isinstance(n, ast.Name) and n.id == node.id and isinstance(n.ctx, ast.Store) for n in ast.walk(fdef)):
                # a local of this function that no statement on this path has assigned yet: Python raises UnboundLocalError
                raise RaiseSig(VExc("UnboundLocalError"))
            raise OutOfSubset("unbound name %s" % node.id, node)
        if isinstance(r, tuple) and r[0] == "const-node":
            return self.eval_module_const(fr.modname, node.id, r[1])
        return r

    def eval_module_const(self, modname, name, valnode):
        """module-level constant: evaluated from the RUNNING module (same tree)"""
        try:
            val = getattr(self.repo.module(modname), name)
        except Exception:
            raise OutOfSubset("module constant %s.%s" % (modname, name), valnode)
        return self.lift_runtime(val, "%s.%s" % (modname, name))

    def lift_runtime(self, val, tag):
        if isinstance(val, (bool, int, bytes, str, type(None))):
            return self.const(val)
        if isinstance(val, (tuple,)):
            return VTuple([self.lift_runtime(x, tag) for x in val])
        if isinstance(val, (frozenset, set)):
            try:
                items = sorted(val)
            except TypeError:
                items = list(val)
            return self.new_list(ListModel([self.lift_runtime(x, tag) for x in items], tag="set:" + tag))
        if isinstance(val, list):
            return self.new_list(ListModel([self.lift_runtime(x, tag) for x in val], tag=tag))
        if isinstance(val, dict) and all(isinstance(k, str) for k in val):
            return self.new_dict(DictModel({k: (z3.BoolVal(True), self.lift_runtime(v, tag)) for k, v in val.items()}, False, None, tag))
        if isinstance(val, type) and issubclass(val, BaseException):
            # an exception class held in a module constant (e.g. a tuple used in an except clause)
            mod = getattr(val, "__module__", "")
            return VClass(val.__name__ if mod == "builtins" else "%s.%s" % (mod.split(".")[-1], val.__qualname__))
        if hasattr(val, "pattern") and hasattr(val, "groupindex"):
            return VOpaque("regex:" + tag)
        if isinstance(val, type) and issubclass(val, tuple) and hasattr(val, "_fields"):
            return VFunc("namedtuple", fields=tuple(val._fields), name="namedtuple:" + tag)
        return VOpaque("runtime:" + tag)

    def e_Tuple(self, node, fr):
        return VTuple([self.eval(e, fr) for e in node.elts])

    def e_List(self, node, fr):
        return self.new_list(ListModel([self.eval(e, fr) for e in node.elts]))

    def e_Set(self, node, fr):
        return self.new_list(ListModel([self.eval(e, fr) for e in node.elts], tag="set"))

    def e_Dict(self, node, fr):
        ents = {}
        for k, v in zip(node.keys, node.values):
            if not (isinstance(k, ast.Constant) and isinstance(k.value, str)):
                raise OutOfSubset("dict literal with non-constant key", node)
            ents[k.value] = (z3.BoolVal(True), self.eval(v, fr))
        return self.new_dict(DictModel(ents, False))

    def e_JoinedStr(self, node, fr):
        parts = []
        for p in node.values:
            if isinstance(p, ast.Constant):
                parts.append(VStr(p.value, False))
            else:
                v = self.eval(p.value, fr)
                parts.append(self.to_str(v, "fstr"))
        if not parts:
            return VStr("", False)
        t = parts[0].t
        for p in parts[1:]:
            t = z3.Concat(t, p.t)
        return VStr(t, False)

    def to_str(self, v, base="str"):
        """str(v) as VStr(str).  ints become an uninterpreted decimal image; others opaque strings."""
        v = self.force(v)
        if isinstance(v, VStr) and not v.bytes:
            return v
        if isinstance(v, VInt):
            r = VStr(z3.IntToStr(v.t), False)
            # IntToStr is "" for negatives; use an uninterpreted image then
            if not is_true(v.t >= 0):
                r = VStr(z3.If(v.t >= 0, z3.IntToStr(v.t), z3.Concat(z3.StringVal("-"), z3.IntToStr(-v.t))), False)
            r.l1 = True
            return r
        return self.fresh_str(base, False)

    def e_Attribute(self, node, fr):
        base = self.eval(node.value, fr)
        return self.getattr(base, node.attr, node, fr)

    def getattr(self, base, attr, node=None, fr=None):
        base = self.force(base)
        if isinstance(base, VObj):
            key = (base.oid, attr)
            if key in self.state.heap:
                self.emit("attr_read", obj=base, field=attr, node=node)
                return self.state.heap[key]
            spec = self.reg.class_spec(base.cls)
            if spec is not None and attr in spec.ghost_props:
                return self.eval_spec(spec.ghost_props[attr], {"self": base}, spec.module)
            if getattr(base, "symbolic", False) and spec is not None and attr in spec.fields:
                # symbolic (pre-existing) object: an unread field is arbitrary, not the class default.
                # Its initial value is created once per path and shared by every state snapshot (old() sees the same symbol).
                v = self.lazy_init.get(key)
                if v is None:
                    v = self.fresh_of_type(spec.fields[attr], "%s.%s" % (base.cls.split(".")[-1], attr))
                    self.lazy_init[key] = v
                self.state.heap[key] = v
                return v
            m = self.find_method(base.cls, attr)
            if m is not None:
                c, fn = m
                if any(isinstance(d, ast.Name) and d.id == "property" for d in fn.decorator_list):
                    from .builtins_model import call_value
                    return call_value(self, VFunc("method", recv=base, cls=c, node=fn, name=c + "." + attr, attr=attr), [], {}, node, fr)
                return VFunc("method", recv=base, cls=c, node=fn, name=c + "." + attr, attr=attr)
            d = self.class_attr_default(base.cls, attr)
            if d is not None:
                c, valnode = d
                f2 = Frame(c.split(".")[0], c, {})
                v = self.eval(valnode, f2)
                self.emit("attr_read", obj=base, field=attr, node=node)
                return v
            if spec is not None and attr in spec.fields:
                v = self.fresh_of_type(spec.fields[attr], "%s.%s" % (base.cls.split(".")[-1], attr))
                self.state.heap[key] = v
                return v
            if spec is not None and attr in spec.env_methods:
                return VFunc("env", recv=base, name=base.cls + "." + attr, attr=attr, spec=spec.env_methods[attr])
            if spec is not None and self.class_node(base.cls) is not None and attr.startswith("_") and not attr.startswith("__"):
                # a private instance field the contracts do not know (new code may add state): an arbitrary value, the same on every read until
                # it is written; listed in the evidence so that a typo in a contract does not hide behind it
                note = "undeclared field read as an arbitrary value: %s.%s" % (base.cls, attr)
                if note not in self.notes:
                    self.notes.append(note)
                v = VOpaque("field:" + attr)
                self.state.heap[key] = v
                return v
            raise OutOfSubset("attribute %s of %s" % (attr, base.cls), node)
        if isinstance(base, VNone):
            raise RaiseSig(VExc("AttributeError"))
        if isinstance(base, VModule):
            if base.name.startswith("ext:"):
                return VFunc("external", name=base.name[4:] + "." + attr)
            r = self.resolve_name_static(base.name, attr)
            if isinstance(r, tuple):
                return self.eval_module_const(base.name, attr, r[1])
            if r is None:
                raise OutOfSubset("module attribute %s.%s" % (base.name, attr), node)
            return r
        if isinstance(base, VClass):
            m = self.find_method(base.qual, attr) if "." in base.qual else None
            if m is not None:
                c, fn = m
                return VFunc("unbound", cls=c, node=fn, name=c + "." + attr, attr=attr)
            d = self.class_attr_default(base.qual, attr) if "." in base.qual else None
            if d is not None:
                c, valnode = d
                return self.eval(valnode, Frame(c.split(".")[0], c, {}))
            raise OutOfSubset("class attribute %s.%s" % (base.qual, attr), node)
        if isinstance(base, VExc):
            if attr == "args":
                return VTuple(base.args)
            if base.obj is not None:
                return self.getattr(base.obj, attr, node, fr)
            return VOpaque("excattr:" + attr)
        if isinstance(base, VFunc) and base.kind == "external":
            return VFunc("external", name=base.name + "." + attr)
        if isinstance(base, (VStr, VList, VDict, VTuple, VInt, VOpaque, VSet)):
            return VFunc("bound-builtin", recv=base, attr=attr, name=attr)
        raise OutOfSubset("attribute %s on %r" % (attr, base), node)

    def setattr(self, base, attr, val, node=None):
        base = self.force(base)
        if isinstance(base, VObj):
            self.emit("attr_write", obj=base, field=attr, val=val, node=node)
            self.state.heap[(base.oid, attr)] = val
            return
        if isinstance(base, VOpaque):
            return
        raise OutOfSubset("attribute store on %r" % (base,), node)

    # ---- operators
    def e_UnaryOp(self, node, fr):
        v = self.eval(node.operand, fr)
        if isinstance(node.op, ast.Not):
            return VBool(z3.Not(self.truth(v)))
        v = self.force(v)
        if isinstance(node.op, ast.USub) and isinstance(v, VInt):
            return VInt(-v.t)
        raise OutOfSubset("unary op", node)

    def e_BoolOp(self, node, fr):
        # short-circuit with value semantics: fork on truthiness
        is_and = isinstance(node.op, ast.And)
        vals = node.values
        if getattr(fr, "is_spec", False):
            # contract expressions are pure: no forking; later operands are evaluated under the guard
            # established by the earlier ones (so `x is not None and x.f` is well defined)
            ts = []
            mark = len(self.state.pc)
            try:
                for v in vals:
                    t = self.truth(self.eval(v, fr))
                    ts.append(t)
                    self.state.pc.append(t if is_and else z3.Not(t))
            finally:
                del self.state.pc[mark:]
            return VBool(z3.And(ts) if is_and else z3.Or(ts))
        cur = self.eval(vals[0], fr)
        for nxt in vals[1:]:
            t = self.truth(cur)
            pure_bool = isinstance(cur, VBool)
            if pure_bool and self.is_pure_bool_expr(nxt):
                # stay symbolic (no fork) when both sides are side-effect-free booleans
                saved_pc = len(self.state.pc)
                try:
                    nv = self.eval_guarded(nxt, fr, t if is_and else z3.Not(t))
                except _NeedFork:
                    nv = None
                if nv is not None and isinstance(nv, VBool):
                    cur = VBool(z3.And(t, nv.t) if is_and else z3.Or(t, nv.t))
                    continue
            if self.branch(t):
                if is_and:
                    cur = self.eval(nxt, fr)
                else:
                    return cur
            else:
                if is_and:
                    return cur
                else:
                    cur = self.eval(nxt, fr)
        return cur

    def is_pure_bool_expr(self, node):
        return False   # conservative: always fork (keeps evaluation order/exception semantics exact)

    def eval_guarded(self, node, fr, guard):
        raise _NeedFork()

    def e_IfExp(self, node, fr):
        if getattr(fr, "is_spec", False):
            c = self.truth(self.eval(node.test, fr))
            if is_true(c):
                return self.eval(node.body, fr)
            if is_false(c):
                return self.eval(node.orelse, fr)
            mark = len(self.state.pc)
            self.state.pc.append(c)
            try:
                a = self.force(self.eval(node.body, fr))
            finally:
                del self.state.pc[mark:]
            self.state.pc.append(z3.Not(c))
            try:
                b = self.force(self.eval(node.orelse, fr))
            finally:
                del self.state.pc[mark:]
            if isinstance(a, VInt) and isinstance(b, VInt):
                return VInt(z3.If(c, a.t, b.t))
            if isinstance(a, VStr) and isinstance(b, VStr):
                return VStr(z3.If(c, a.t, b.t), a.bytes)
            if isinstance(a, VBool) and isinstance(b, VBool):
                return VBool(z3.If(c, a.t, b.t))
            raise OutOfSubset("conditional expression in contract over %r / %r" % (a, b), node)
        if self.branch(self.truth(self.eval(node.test, fr))):
            return self.eval(node.body, fr)
        return self.eval(node.orelse, fr)

    def e_BinOp(self, node, fr):
        l = self.force(self.eval(node.left, fr))
        r = self.force(self.eval(node.right, fr))
        return self.binop(node.op, l, r, node)

    def binop(self, op, l, r, node=None):
        if isinstance(l, VInt) and isinstance(r, VInt):
            if isinstance(op, ast.Add):
                return VInt(l.t + r.t)
            if isinstance(op, ast.Sub):
                return VInt(l.t - r.t)
            if isinstance(op, ast.Mult):
                return VInt(l.t * r.t)
            if isinstance(op, ast.BitOr):
                return VOpaque("int-bitor")
            if isinstance(op, ast.FloorDiv):
                self.builtin_pre("ZeroDivisionError", r.t != 0, node)
                return VInt(l.t / r.t)
        if isinstance(l, VSeq) and isinstance(r, VSeq) and isinstance(op, ast.Add):
            return VSeq(z3.Concat(l.t, r.t))
        if isinstance(l, VStr) and isinstance(r, VStr) and isinstance(op, ast.Add):
            if l.bytes != r.bytes:
                raise RaiseSig(VExc("TypeError"))
            out = VStr(z3.Concat(l.t, r.t), l.bytes)
            if getattr(l, "l1", False) and getattr(r, "l1", False):
                out.l1 = True
            return out
        if isinstance(l, VStr) and isinstance(op, ast.Mod):
            return self.format_percent(l, r, node)
        if isinstance(l, VInt) and isinstance(r, VStr) and isinstance(op, ast.Mult):
            raise OutOfSubset("str repetition", node)
        if isinstance(l, VList) and isinstance(r, VList) and isinstance(op, ast.Add):
            a, b = self.state.lists[l.lid], self.state.lists[r.lid]
            if a.items is not None and b.items is not None:
                return self.new_list(ListModel(a.items + b.items))
            return self.list_concat(a, b)
        if isinstance(l, VDict) and isinstance(op, ast.Sub) and isinstance(r, VList) and self.state.dicts[l.did].tag == "strset":
            # a symbolic set of strings minus a concrete set: enumerate the members present on this path (forks per candidate)
            items = self.iter_items(l, node)
            if items is not None:
                l = self.new_list(ListModel(list(items), tag="set"))
        if isinstance(l, VList) and isinstance(op, ast.Sub) and isinstance(r, VList):
            a, b = self.state.lists[l.lid], self.state.lists[r.lid]
            if a.items is not None and b.items is not None:
                return self.new_list(ListModel([x for x in a.items if not any(self.const_eq(x, y) for y in b.items)], tag=a.tag))
        if isinstance(l, VOpaque) or isinstance(r, VOpaque):
            return VOpaque("binop")
        raise OutOfSubset("binop %s on %r, %r" % (type(op).__name__, l, r), node)

    def list_concat(self, a, b):
        la = z3.IntVal(len(a.items)) if a.items is not None else a.length
        lb = z3.IntVal(len(b.items)) if b.items is not None else b.length
        av, bv = self.new_list(a.copy()), self.new_list(b.copy())
        eng = self

        def elem_of(model, lv, j):
            # element j of `model` without forking when its elements are strings (nested If over a concrete spine)
            if model.items is not None:
                items = [eng.force(x) for x in model.items]
                if items and all(isinstance(x, VStr) and x.bytes == items[0].bytes for x in items):
                    t = items[-1].t
                    for k in range(len(items) - 2, -1, -1):
                        t = z3.If(j == k, items[k].t, t)
                    return VStr(t, items[0].bytes)
                return None
            return eng.list_elem(lv, model, j)

        def mk(i, _la=la):
            # element i of a ++ b: from a when i < len(a), else from b
            am, bm = eng.state.lists[av.lid], eng.state.lists[bv.lid]
            if not (am.items is not None and not am.items) and not (bm.items is not None and not bm.items):
                ea = elem_of(am, av, simp(z3.If(i < _la, i, 0)))
                eb = elem_of(bm, bv, simp(z3.If(i < _la, 0, i - _la)))
                ea, eb = (eng.force(ea) if ea is not None else None), (eng.force(eb) if eb is not None else None)
                if isinstance(ea, VStr) and isinstance(eb, VStr) and ea.bytes == eb.bytes:
                    r = VStr(z3.If(i < _la, ea.t, eb.t), ea.bytes)
                    if getattr(ea, "l1", False) and getattr(eb, "l1", False):
                        r.l1 = True
                    return r
            if eng.branch(i < _la):
                return eng.index(av, VInt(i))
            return eng.index(bv, VInt(simp(i - _la)))
        m = ListModel(None, simp(la + lb), mk, [], "concat")
        return self.new_list(m)

    def const_eq(self, a, b):
        try:
            return is_true(self.eq(a, b))
        except OutOfSubset:
            return False

    def format_percent(self, fmt, arg, node):
        """'... %s ...' % x : only the shape needed by the proofs: a fresh string; when the
        format is a constant with only %s/%d/%r and arguments are strings, build the exact concat."""
        args = arg.items if isinstance(arg, VTuple) else [arg]
        f = simp(fmt.t)
        if z3.is_string_value(f):
            text = f.as_string()
            # z3 escapes non-ascii as \u{..}; constants in waitress formats are ascii
            pieces = []
            i = 0
            ai = 0
            ok = True
            buf = ""
            while i < len(text):
                if text[i] == "%" and i + 1 < len(text):
                    j = i + 1
                    while j < len(text) and text[j] in "0123456789.-":
                        j += 1
                    conv = text[j] if j < len(text) else ""
                    spec = text[i + 1:j]
                    if conv == "%":
                        buf += "%"
                        i = j + 1
                        continue
                    if conv in "sdr" and ai < len(args):
                        if buf:
                            pieces.append(VStr(buf, fmt.bytes))
                            buf = ""
                        a = self.force(args[ai])
                        ai += 1
                        if conv == "s" and not spec and isinstance(a, VStr) and a.bytes == fmt.bytes:
                            pieces.append(a)
                        elif conv in "sd" and not spec and isinstance(a, VInt) and not fmt.bytes:
                            pieces.append(self.to_str(a))
                        else:
                            pieces.append(self.fresh_str("fmt", fmt.bytes))
                        i = j + 1
                        continue
                    ok = False
                    break
                buf += text[i]
                i += 1
            if ok:
                if buf:
                    pieces.append(VStr(buf, fmt.bytes))
                if not pieces:
                    return VStr("", fmt.bytes)
                t = pieces[0].t
                for p in pieces[1:]:
                    t = z3.Concat(t, p.t)
                return VStr(t, fmt.bytes)
        return self.fresh_str("fmt", fmt.bytes)

    def e_Compare(self, node, fr):
        left = self.eval(node.left, fr)
        result = None
        for op, rn in zip(node.ops, node.comparators):
            right = self.eval(rn, fr)
            c = self.compare(op, left, right, node)
            if result is None:
                result = c
            else:
                result = z3.And(result, c)
            if len(node.ops) > 1:
                # chained: short-circuit semantics are irrelevant for the side-effect-free operands used
                pass
            left = right
        return VBool(result)

    def compare(self, op, l, r, node=None):
        if isinstance(op, (ast.Is, ast.IsNot)):
            c = self.identical(l, r)
            return c if isinstance(op, ast.Is) else z3.Not(c)
        if isinstance(op, (ast.Eq, ast.NotEq)):
            c = self.eq(l, r, node)
            return c if isinstance(op, ast.Eq) else z3.Not(c)
        if isinstance(op, (ast.In, ast.NotIn)):
            c = self.contains(r, l, node)
            return c if isinstance(op, ast.In) else z3.Not(c)
        l, r = self.force(l), self.force(r)
        if isinstance(l, VInt) and isinstance(r, VInt):
            return {ast.Lt: l.t < r.t, ast.LtE: l.t <= r.t, ast.Gt: l.t > r.t, ast.GtE: l.t >= r.t}[type(op)]
        if isinstance(l, VOpaque) or isinstance(r, VOpaque):
            return self.fresh_bool("cmp").t
        if isinstance(l, VNone) or isinstance(r, VNone):
            raise RaiseSig(VExc("TypeError"))
        raise OutOfSubset("comparison %s on %r, %r" % (type(op).__name__, l, r), node)

    def identical(self, l, r):
        if isinstance(l, VSet) and isinstance(r, VSet):
            return z3.BoolVal(l.sid == r.sid)
        if isinstance(l, VOpt) and isinstance(r, VNone):
            return l.none
        if isinstance(r, VOpt) and isinstance(l, VNone):
            return r.none
        l, r = self.force(l), self.force(r)
        if isinstance(l, VNone) or isinstance(r, VNone):
            return z3.BoolVal(isinstance(l, VNone) and isinstance(r, VNone))
        if isinstance(l, VObj) and isinstance(r, VObj):
            return z3.BoolVal(l.oid == r.oid)
        if isinstance(l, VList) and isinstance(r, VList):
            return z3.BoolVal(l.lid == r.lid)
        if isinstance(l, VBool) and isinstance(r, VBool):
            return l.t == r.t
        if isinstance(l, VClass) and isinstance(r, VClass):
            return z3.BoolVal(l.qual == r.qual)
        if isinstance(l, VFunc) and isinstance(r, VFunc):
            return z3.BoolVal(l.name == r.name)
        if isinstance(l, VOpaque) and isinstance(r, VOpaque):
            # the same opaque value is identical to itself; two separately created opaque values may or may not be the same object
            return z3.BoolVal(True) if l is r else self.fresh_bool("is").t
        if type(l) != type(r):
            if isinstance(l, VOpaque) or isinstance(r, VOpaque):
                return self.fresh_bool("is").t
            return z3.BoolVal(False)
        raise OutOfSubset("identity of %r, %r" % (l, r))

    def eq(self, l, r, node=None):
        if isinstance(l, VOpt) and isinstance(r, VNone):
            return l.none
        if isinstance(r, VOpt) and isinstance(l, VNone):
            return r.none
        l, r = self.force(l), self.force(r)
        if isinstance(l, VInt) and isinstance(r, VInt):
            return l.t == r.t
        if isinstance(l, VBool) and isinstance(r, VBool):
            return l.t == r.t
        if isinstance(l, VBool) and isinstance(r, VInt):
            return z3.If(l.t, 1, 0) == r.t
        if isinstance(l, VInt) and isinstance(r, VBool):
            return l.t == z3.If(r.t, 1, 0)
        if isinstance(l, VStr) and isinstance(r, VStr):
            if l.bytes != r.bytes:
                return z3.BoolVal(False)
            return l.t == r.t
        if isinstance(l, VSeq) and isinstance(r, VSeq):
            return l.t == r.t
        if isinstance(l, VNone) or isinstance(r, VNone):
            return z3.BoolVal(isinstance(l, VNone) and isinstance(r, VNone))
        if isinstance(l, VTuple) and isinstance(r, VTuple):
            if len(l.items) != len(r.items):
                return z3.BoolVal(False)
            return z3.And([self.eq(a, b) for a, b in zip(l.items, r.items)]) if l.items else z3.BoolVal(True)
        if isinstance(l, VObj) and isinstance(r, VObj):
            return z3.BoolVal(l.oid == r.oid)
        if isinstance(l, VList) and isinstance(r, VList):
            a, b = self.state.lists[l.lid], self.state.lists[r.lid]
            if a.items is not None and b.items is not None:
                if len(a.items) != len(b.items):
                    return z3.BoolVal(False)
                return z3.And([self.eq(x, y) for x, y in zip(a.items, b.items)]) if a.items else z3.BoolVal(True)
            if a.items is not None and not a.items:
                return b.length == 0
            if b.items is not None and not b.items:
                return a.length == 0
            if a.seq is not None and b.seq is not None:
                return a.seq == b.seq
            return self.fresh_bool("listeq").t
        if isinstance(l, VOpaque) or isinstance(r, VOpaque):
            return self.fresh_bool("eq").t
        if type(l) != type(r):
            return z3.BoolVal(False)
        if isinstance(l, VClass):
            return z3.BoolVal(l.qual == r.qual)
        raise OutOfSubset("equality of %r, %r" % (l, r), node)

    def contains(self, container, item, node=None):
        container, item = self.force(container), self.force(item)
        if isinstance(container, VStr) and isinstance(item, VStr):
            return z3.Contains(container.t, item.t)
        if isinstance(container, VStr) and isinstance(item, VInt) and container.bytes:
            return z3.Contains(container.t, z3.StringFromCode(item.t)) if hasattr(z3, "StringFromCode") else self.fresh_bool("in").t
        if isinstance(container, VTuple):
            return z3.Or([self.eq(item, x) for x in container.items]) if container.items else z3.BoolVal(False)
        if isinstance(container, VList):
            m = self.state.lists[container.lid]
            if m.items is not None:
                return z3.Or([self.eq(item, x) for x in m.items]) if m.items else z3.BoolVal(False)
            return self.fresh_bool("in_list").t
        if isinstance(container, VSet) and isinstance(item, VInt):
            return z3.Select(self.state.sets[container.sid][0], item.t)
        if isinstance(container, VDict):
            return self.dict_has(container, item, node)
        if isinstance(container, VOpaque):
            # an opaque mapping: the answer is arbitrary, but it is remembered for this key, so that `if k in m: del m[k]` cannot raise
            known = self.state.ghost.setdefault("opaque_has", {})
            kid = (container.tag, self._key_id(item))
            if kid not in known:
                known[kid] = self.fresh_bool("in_opaque").t
            return known[kid]
        raise OutOfSubset("membership in %r" % (container,), node)

    def _key_id(self, key):
        key = self.force(key)
        t = getattr(key, "t", None)
        return simp(t).sexpr() if t is not None and z3.is_expr(t) else repr(key)

    # ---- dicts
    def dict_key(self, key, node=None):
        key = self.force(key)
        if isinstance(key, VStr):
            k = simp(key.t)
            if z3.is_string_value(k):
                return k.as_string(), None
            return None, key
        raise OutOfSubset("dict key %r" % (key,), node)

    def dict_has(self, d, key, node=None):
        m = self.state.dicts[d.did]
        ck, sym = self.dict_key(key, node)
        if ck is not None:
            if ck in m.entries:
                return m.entries[ck][0]
            if not m.open:
                return z3.BoolVal(False)
            return self.dict_lazy_entry(m, ck)[0]
        # symbolic key: present iff equals a present concrete key (closed dict) / unknown (open)
        if not m.open:
            return z3.Or([z3.And(p, sym.t == z3.StringVal(k)) for k, (p, _) in m.entries.items()]) if m.entries else z3.BoolVal(False)
        # open dict: unknown in general, but it agrees with every entry already known (and with earlier reads of the same key)
        reads = m.__dict__.setdefault("sym_reads", {})
        tid = sym.t.get_id()
        if tid in reads:
            return reads[tid][0]
        h = self.fresh_bool("has_sym").t
        for k, (p, _) in m.entries.items():
            self.assume(z3.Implies(sym.t == z3.StringVal(k), h == p))
        reads[tid] = (h, (m.make_val("?") if m.make_val else VOpaque("dictval")))
        return h

    def dict_get(self, d, key, node=None):
        """returns (present z3 Bool, value)"""
        m = self.state.dicts[d.did]
        ck, sym = self.dict_key(key, node)
        if ck is not None:
            p = self.dict_has(d, key, node)
            return p, m.entries[ck][1] if ck in m.entries else NONE
        # symbolic key: split over concrete keys
        for k, (p, v) in list(m.entries.items()):
            if self.branch(z3.And(p, sym.t == z3.StringVal(k))):
                return z3.BoolVal(True), v
        if not m.open:
            return z3.BoolVal(False), NONE
        # unknown key of an open dict: one (presence, value) pair per key term, so repeated reads agree
        reads = m.__dict__.setdefault("sym_reads", {})
        tid = sym.t.get_id()
        if tid not in reads:
            p = self.fresh_bool("has_sym").t
            for k, (pk, _) in m.entries.items():
                self.assume(z3.Implies(sym.t == z3.StringVal(k), p == pk))
            reads[tid] = (p, (m.make_val("?") if m.make_val else VOpaque("dictval")))
        return reads[tid]

    def dict_set(self, d, key, val, node=None):
        m = self.state.dicts[d.did]
        ck, sym = self.dict_key(key, node)
        self.emit("dict_write", d=d, key=key, val=val, node=node)
        if ck is not None:
            m.entries[ck] = (z3.BoolVal(True), val)
            return
        # symbolic key: if it equals a known concrete key -> update it; else new symbolic entry
        for k in list(m.entries.keys()):
            if self.branch(sym.t == z3.StringVal(k)):
                m.entries[k] = (z3.BoolVal(True), val)
                return
        m.sym_entries = getattr(m, "sym_entries", []) + [(sym, val)]
        m.__dict__.setdefault("sym_reads", {})[sym.t.get_id()] = (z3.BoolVal(True), val)

    # ---- subscripts
    def e_Subscript(self, node, fr):
        base = self.force(self.eval(node.value, fr))
        if isinstance(node.slice, ast.Slice):
            lo = self.force(self.eval(node.slice.lower, fr)) if node.slice.lower is not None else None
            hi = self.force(self.eval(node.slice.upper, fr)) if node.slice.upper is not None else None
            if node.slice.step is not None:
                st = self.eval(node.slice.step, fr)
                if isinstance(base, VList) and lo is None and hi is None and isinstance(st, VInt) and is_true(st.t == -1):
                    m = self.state.lists[base.lid]
                    if m.items is not None:
                        return self.new_list(ListModel(list(reversed(m.items))))
                    nm = ListModel(None, m.length, m.make_elem, m.elem_facts, "reversed")
                    return self.new_list(nm)
                raise OutOfSubset("slice step", node)
            return self.slice(base, lo, hi, node)
        idx = self.force(self.eval(node.slice, fr))
        return self.index(base, idx, node)

    def norm_index(self, i, ln):
        """python slice bound normalisation"""
        return z3.If(i < 0, z3.If(i + ln < 0, 0, i + ln), z3.If(i > ln, ln, i))

    def slice(self, base, lo, hi, node=None):
        if isinstance(base, VStr):
            ln = z3.Length(base.t)
            if lo is not None and not isinstance(lo, VInt) or hi is not None and not isinstance(hi, VInt):
                if isinstance(lo, VNone):
                    lo = None
                elif isinstance(hi, VNone):
                    hi = None
                else:
                    raise OutOfSubset("slice bound type", node)
            a = self.norm_index(lo.t, ln) if lo is not None else z3.IntVal(0)
            b = self.norm_index(hi.t, ln) if hi is not None else ln
            n = z3.If(b - a < 0, 0, b - a)
            r = VStr(simp(z3.SubString(base.t, a, n)), base.bytes)
            if getattr(base, "l1", False):
                r.l1 = True
            return r
        if isinstance(base, VList):
            m = self.state.lists[base.lid]
            if m.items is not None:
                ln = len(m.items)

                def cv(x, default):
                    if x is None:
                        return default
                    s = simp(x.t)
                    if z3.is_int_value(s):
                        return s.as_long()
                    return None
                a, b = cv(lo, None), cv(hi, None)
                if (lo is None or a is not None) and (hi is None or b is not None):
                    return self.new_list(ListModel(m.items[a:b]))
                # symbolic bound on a concrete list: only xs[-c:] form is used
            return self.list_slice_abstract(base, m, lo, hi, node)
        if isinstance(base, VTuple):
            def cv2(x):
                if x is None:
                    return None
                s = simp(x.t)
                if z3.is_int_value(s):
                    return s.as_long()
                raise OutOfSubset("symbolic tuple slice", node)
            return VTuple(base.items[cv2(lo):cv2(hi)])
        raise OutOfSubset("slice of %r" % (base,), node)

    def list_slice_abstract(self, base, m, lo, hi, node):
        ln = z3.IntVal(len(m.items)) if m.items is not None else m.length
        a = self.norm_index(lo.t, ln) if lo is not None else z3.IntVal(0)
        b = self.norm_index(hi.t, ln) if hi is not None else ln
        n = z3.If(b - a < 0, 0, b - a)
        nm = ListModel(None, simp(n), m.make_elem, m.elem_facts, "slice")
        nm.parent = (base.lid, simp(a))
        if m.items is not None:
            items = m.items
            nm.make_elem = None
            nm.parent_items = items
        return self.new_list(nm)

    def builtin_pre(self, exc, cond, node, label=None):
        """a builtin operation raises `exc` unless `cond`: fork (exceptions are part of the semantics)."""
        if not self.branch(cond):
            self.emit("builtin_raise", exc=exc, node=node)
            raise RaiseSig(VExc(exc))

    def index(self, base, idx, node=None):
        if isinstance(base, VStr):
            if not isinstance(idx, VInt):
                raise OutOfSubset("str index type", node)
            ln = z3.Length(base.t)
            self.builtin_pre("IndexError", z3.And(idx.t < ln, idx.t >= -ln), node)
            i = z3.If(idx.t < 0, idx.t + ln, idx.t)
            ch = z3.SubString(base.t, i, 1)
            if base.bytes:
                return VInt(z3.StrToCode(ch))
            return VStr(simp(ch), False)
        if isinstance(base, VTuple):
            s = simp(idx.t) if isinstance(idx, VInt) else None
            if s is not None and z3.is_int_value(s):
                k = s.as_long()
                if -len(base.items) <= k < len(base.items):
                    return base.items[k]
                raise RaiseSig(VExc("IndexError"))
            raise OutOfSubset("symbolic tuple index", node)
        if isinstance(base, VList):
            return self.list_index(base, idx, node)
        if isinstance(base, VDict):
            p, v = self.dict_get(base, idx, node)
            self.builtin_pre("KeyError", p, node)
            return v
        if isinstance(base, VOpaque):
            if base.tag.startswith("match:"):
                return self.regex_group(base, idx, node)
            return VOpaque("index")
        if isinstance(base, VExc):
            raise OutOfSubset("index exception", node)
        raise OutOfSubset("index of %r" % (base,), node)

    def list_index(self, base, idx, node):
        m = self.state.lists[base.lid]
        if not isinstance(idx, VInt):
            raise OutOfSubset("list index type", node)
        s = simp(idx.t)
        if m.items is not None:
            n = len(m.items)
            if z3.is_int_value(s):
                k = s.as_long()
                if -n <= k < n:
                    return m.items[k]
                raise RaiseSig(VExc("IndexError"))
            self.builtin_pre("IndexError", z3.And(idx.t < n, idx.t >= -n), node)
            for k in range(n):
                if self.branch(z3.Or(idx.t == k, idx.t == k - n)):
                    return m.items[k]
            raise PathEnd("index enumeration")
        self.builtin_pre("IndexError", z3.And(idx.t < m.length, idx.t >= -m.length), node)
        i = simp(z3.If(idx.t < 0, idx.t + m.length, idx.t))
        return self.list_elem(base, m, i)

    def list_elem(self, lv, m, i):
        """element i (normalised, in range) of abstract list"""
        cache = m.__dict__.setdefault("cache", [])
        for (j, v) in cache:
            if is_true(j == i):
                return v
        if getattr(m, "parent_items", None) is not None:
            off = m.parent[1]
            items = m.parent_items
            for k in range(len(items)):
                if self.branch(off + i == k):
                    return items[k]
            raise PathEnd("slice element enumeration")
        if getattr(m, "parent", None) is not None and m.parent[0] in self.state.lists:
            pm = self.state.lists[m.parent[0]]
            if pm.items is None:
                v = self.list_elem(VList(m.parent[0]), pm, simp(m.parent[1] + i))
                cache.append((i, v))
                return v
        if m.make_elem is None:
            raise OutOfSubset("element of abstract list without maker")
        v = m.make_elem(i)
        for fact in m.elem_facts:
            self.assume(fact(self, v))
        cache.append((i, v))
        return v

    # ---- comprehension (only over concrete-spine or abstract lists, pure element expr)
    def e_ListComp(self, node, fr):
        if len(node.generators) != 1 or node.generators[0].is_async:
            raise OutOfSubset("nested comprehension", node)
        g = node.generators[0]
        it = self.force(self.eval(g.iter, fr))
        items = self.iter_items(it, node)
        if items is None:
            return self.abstract_comprehension(node, g, it, fr)
        out = []
        for x in items:
            env = dict(fr.env)
            f2 = Frame(fr.modname, fr.qual, env, fr.self_val)
            self.assign_target(g.target, x, f2)
            if all(self.branch(self.truth(self.eval(c, f2))) for c in g.ifs):
                out.append(self.eval(node.elt, f2))
        return self.new_list(ListModel(out))

    e_GeneratorExp = e_ListComp

    def e_SetComp(self, node, fr):
        v = self.e_ListComp(node, fr)
        self.state.lists[v.lid].tag = "set"
        return v

    def abstract_comprehension(self, node, g, it, fr):
        if not isinstance(it, VList):
            raise OutOfSubset("comprehension over %r" % (it,), node)
        src = self.state.lists[it.lid]
        ln = self.fresh_int("comp_len")
        self.assume(ln.t >= 0)
        self.assume(ln.t <= src.length)
        if not g.ifs:
            self.assume(ln.t == src.length)
        eng = self

        def mk(i, _node=node, _g=g, _fr=fr, _src=src, _it=it):
            x = eng.list_elem(_it, _src, eng.fresh_int("comp_idx").t) if False else (_src.make_elem(i) if _src.make_elem else VOpaque("elem"))
            for fact in _src.elem_facts:
                eng.assume(fact(eng, x))
            env = dict(_fr.env)
            f2 = Frame(_fr.modname, _fr.qual, env, _fr.self_val)
            eng.assign_target(_g.target, x, f2)
            for c in _g.ifs:
                eng.assume(eng.truth(eng.eval(c, f2)))
            return eng.eval(_node.elt, f2)
        return self.new_list(ListModel(None, ln.t, mk, [], "comp"))

    def iter_items(self, it, node=None):
        """concrete item list of an iterable, or None if abstract"""
        if isinstance(it, VTuple):
            return it.items
        if isinstance(it, VList):
            m = self.state.lists[it.lid]
            return m.items
        if isinstance(it, VDict):
            m = self.state.dicts[it.did]
            if not m.open and not getattr(m, "sym_entries", None):
                # closed map / string set: its keys, each one included on the paths where it is present
                return [VStr(k, False) for k, (p, _) in list(m.entries.items()) if self.branch(p)]
            return None
        return None

    def e_Lambda(self, node, fr):
        return VFunc("lambda", node=node, frame=fr, name="<lambda>")

    def e_Starred(self, node, fr):
        raise OutOfSubset("starred", node)

    def e_Call(self, node, fr):
        from .builtins_model import call_dispatch
        return call_dispatch(self, node, fr)

    # ------------------------------------------------------------------ spec evaluation
    def eval_spec(self, text, env, modname="<spec>", old=None, extra=None, old_env=None):
        """evaluate a contract expression (python text) in env (name -> V)"""
        node = self.reg.parse_expr(text)
        fr = Frame(modname, "<spec:%s>" % text[:40], dict(env), env.get("self"))
        fr.old_state = old
        fr.old_env = old_env
        fr.is_spec = True
        if extra:
            fr.env.update(extra)
        self.spec_depth = getattr(self, "spec_depth", 0) + 1
        try:
            return self.eval(node, fr)
        finally:
            self.spec_depth -= 1

    # ------------------------------------------------------------------ statements
    def exec_block(self, stmts, fr):
        for st in stmts:
            self.exec(st, fr)

    def exec(self, node, fr):
        if fr.qual == getattr(self, "cur_qual", None):
            self.covered.add(node.lineno)
        m = getattr(self, "s_" + type(node).__name__, None)
        if m is None:
            raise OutOfSubset("statement %s" % type(node).__name__, node)
        return m(node, fr)

    def s_Expr(self, node, fr):
        if isinstance(node.value, ast.Constant):
            return
        self.eval(node.value, fr)

    def s_Pass(self, node, fr):
        pass

    def s_Import(self, node, fr):
        pass

    def s_ImportFrom(self, node, fr):
        for a in node.names:
            fr.env[a.asname or a.name] = VFunc("external", name=(node.module or "") + "." + a.name)

    def s_Global(self, node, fr):
        pass

    def s_Nonlocal(self, node, fr):
        pass

    def s_Assert(self, node, fr):
        self.builtin_pre("AssertionError", self.truth(self.eval(node.test, fr)), node)

    def s_Delete(self, node, fr):
        for t in node.targets:
            if isinstance(t, ast.Name):
                fr.env.pop(t.id, None)
            elif isinstance(t, ast.Subscript):
                base = self.force(self.eval(t.value, fr))
                key = self.eval(t.slice, fr)
                if isinstance(base, VDict):
                    p, _ = self.dict_get(base, key, node)
                    self.builtin_pre("KeyError", p, node)
                    ck, sym = self.dict_key(key, node)
                    self.emit("dict_write", d=base, key=key, val=None, node=node)
                    if ck is not None:
                        self.state.dicts[base.did].entries[ck] = (z3.BoolVal(False), NONE)
                    else:
                        raise OutOfSubset("del with symbolic key", node)
                elif isinstance(base, VOpaque):
                    # KeyError unless the key is known to be present (tested on this path); an untested key may be absent
                    known = self.state.ghost.setdefault("opaque_has", {})
                    kid = (base.tag, self._key_id(key))
                    p = known.get(kid)
                    if p is None:
                        p = self.fresh_bool("opaque_has_key").t
                    self.builtin_pre("KeyError", p, node)
                    known[kid] = z3.BoolVal(False)
                    self.emit("opaque_del", base=base, node=node)
                else:
                    raise OutOfSubset("del subscript", node)
            else:
                raise OutOfSubset("del target", node)

    def s_Assign(self, node, fr):
        v = self.eval(node.value, fr)
        for t in node.targets:
            self.assign_target(t, v, fr, node)

    def s_AnnAssign(self, node, fr):
        if node.value is not None:
            self.assign_target(node.target, self.eval(node.value, fr), fr, node)

    def assign_target(self, t, v, fr, node=None):
        if isinstance(t, ast.Name):
            fr.env[t.id] = v
            cell = getattr(fr, "cells", {}).get(t.id)
            if cell is not None:
                cell.env[t.id] = v
        elif isinstance(t, ast.Attribute):
            base = self.eval(t.value, fr)
            self.setattr(base, t.attr, v, node or t)
        elif isinstance(t, (ast.Tuple, ast.List)):
            v = self.force(v)
            if isinstance(v, VTuple):
                items = v.items
            elif isinstance(v, VList) and self.state.lists[v.lid].items is not None:
                items = self.state.lists[v.lid].items
            elif isinstance(v, VOpaque):
                items = [VOpaque(v.tag + "[%d]" % i) for i in range(len(t.elts))]
            else:
                items = self.unpack_abstract(v, len(t.elts), node or t)
            if len(items) != len(t.elts):
                raise RaiseSig(VExc("ValueError"))
            for tt, x in zip(t.elts, items):
                self.assign_target(tt, x, fr, node)
        elif isinstance(t, ast.Subscript):
            base = self.force(self.eval(t.value, fr))
            key = self.eval(t.slice, fr)
            if isinstance(base, VDict):
                self.dict_set(base, key, v, node or t)
            elif isinstance(base, VList):
                self.list_setitem(base, self.force(key), v, node or t)
            elif isinstance(base, VOpaque):
                self.emit("opaque_setitem", base=base, key=key, val=v, node=node or t)
            else:
                raise OutOfSubset("subscript store on %r" % (base,), t)
        else:
            raise OutOfSubset("assignment target", t)

    def unpack_abstract(self, v, n, node):
        if isinstance(v, VList):
            m = self.state.lists[v.lid]
            self.builtin_pre("ValueError", m.length == n, node)
            return [self.list_elem(v, m, z3.IntVal(i)) for i in range(n)]
        raise OutOfSubset("unpack of %r" % (v,), node)

    def list_setitem(self, base, idx, v, node):
        m = self.state.lists[base.lid]
        self.emit("list_write", lst=base, node=node)
        if m.items is not None and isinstance(idx, VInt) and z3.is_int_value(simp(idx.t)):
            k = simp(idx.t).as_long()
            if -len(m.items) <= k < len(m.items):
                m.items[k] = v
                return
            raise RaiseSig(VExc("IndexError"))
        if m.items is None and isinstance(idx, VInt):
            self.builtin_pre("IndexError", z3.And(idx.t < m.length, idx.t >= -m.length), node)
            for k, fact in enumerate(m.elem_facts):
                self.oblige("%s/list-elem-fact:%s" % (self.cur_func, getattr(fact, "pred_name", k)), fact(self, v), kind="elem-fact")
            m.__dict__.pop("cache", None)
            return
        raise OutOfSubset("list item store", node)

    def s_AugAssign(self, node, fr):
        t = node.target
        if isinstance(t, ast.Name):
            cur = fr.env.get(t.id)
            if cur is None:
                raise OutOfSubset("augassign unbound", node)
            r = self.eval(node.value, fr)
            fr.env[t.id] = self.aug(node.op, cur, r, node)
        elif isinstance(t, ast.Attribute):
            base = self.eval(t.value, fr)
            cur = self.getattr(base, t.attr, node, fr)
            r = self.eval(node.value, fr)
            self.setattr(base, t.attr, self.aug(node.op, cur, r, node), node)
        elif isinstance(t, ast.Subscript):
            base = self.force(self.eval(t.value, fr))
            key = self.force(self.eval(t.slice, fr))
            cur = self.index(base, key, node)
            r = self.eval(node.value, fr)
            nv = self.aug(node.op, cur, r, node)
            if isinstance(base, VDict):
                self.dict_set(base, key, nv, node)
            elif isinstance(base, VList):
                self.list_setitem(base, key, nv, node)
            else:
                raise OutOfSubset("augassign subscript", node)
        else:
            raise OutOfSubset("augassign target", node)

    def aug(self, op, cur, r, node):
        cur, r = self.force(cur), self.force(r)
        if isinstance(cur, VList) and isinstance(op, ast.Add):
            from .builtins_model import list_extend
            list_extend(self, cur, r, node)
            return cur
        return self.binop(op, cur, r, node)

    def s_If(self, node, fr):
        if self.branch(self.truth(self.eval(node.test, fr))):
            self.exec_block(node.body, fr)
        else:
            self.exec_block(node.orelse, fr)

    def s_Return(self, node, fr):
        raise ReturnSig(self.eval(node.value, fr) if node.value is not None else NONE)

    def s_Break(self, node, fr):
        raise BreakSig()

    def s_Continue(self, node, fr):
        raise ContinueSig()

    def s_Raise(self, node, fr):
        if node.exc is None:
            cur = getattr(fr, "handling", None)
            if cur is None:
                raise OutOfSubset("bare raise outside handler", node)
            raise RaiseSig(cur)
        v = self.force(self.eval(node.exc, fr))
        raise RaiseSig(self.as_exc(v, node))

    def as_exc(self, v, node=None):
        if isinstance(v, VExc):
            return v
        if isinstance(v, VClass):
            return VExc(v.qual)
        if isinstance(v, VObj):
            return VExc(v.cls, obj=v)
        if isinstance(v, VOpaque):
            return VExc("BaseException:opaque")
        raise OutOfSubset("raise of %r" % (v,), node)

    def s_FunctionDef(self, node, fr):
        fr.env[node.name] = VFunc("closure", node=node, frame=fr, name=fr.qual + ".<" + node.name + ">", modname=fr.modname)

    def s_With(self, node, fr):
        ctxs = []
        for item in node.items:
            cm = self.force(self.eval(item.context_expr, fr))
            self.emit("with_enter", cm=cm, node=item.context_expr, frame=fr)
            ctxs.append((cm, item))
            if item.optional_vars is not None:
                self.assign_target(item.optional_vars, cm, fr, node)
        try:
            self.exec_block(node.body, fr)
        except PathEnd:
            raise          # a cut path does not run __exit__
        except BaseException:
            for cm, item in reversed(ctxs):
                self.emit("with_exit", cm=cm, node=item.context_expr, frame=fr)
            raise
        for cm, item in reversed(ctxs):
            self.emit("with_exit", cm=cm, node=item.context_expr, frame=fr)

    def s_Try(self, node, fr):
        def run_final():
            if node.finalbody:
                self.exec_block(node.finalbody, fr)
        try:
            try:
                self.exec_block(node.body, fr)
            except RaiseSig as rs:
                handler = self.match_handler(node.handlers, rs.exc, fr)
                if handler is None:
                    raise
                prev = getattr(fr, "handling", None)
                fr.handling = rs.exc
                try:
                    if handler.name:
                        fr.env[handler.name] = rs.exc
                    self.exec_block(handler.body, fr)
                finally:
                    fr.handling = prev
            else:
                self.exec_block(node.orelse, fr)
        except PathEnd:
            raise
        except Sig:
            run_final()
            raise
        run_final()

    def match_handler(self, handlers, exc, fr):
        for h in handlers:
            if h.type is None:
                return h
            names = h.type.elts if isinstance(h.type, ast.Tuple) else [h.type]
            for n in names:
                tv = self.eval(n, fr)
                for base in self.class_names_of(tv, n):
                    if exc.cls.startswith("BaseException:opaque"):
                        # unknown exception class: demonic -- may or may not be an instance
                        which = "Exception" if not self.exc_is_subclass(base, "Exception") and base != "BaseException" else base
                        if base == "BaseException":
                            return h
                        if self.branch(self.fresh_bool("exc_isinstance_" + base.split(".")[-1]).t):
                            return h
                    elif self.exc_is_subclass(exc.cls, base):
                        return h
        return None

    def class_names_of(self, tv, node):
        if isinstance(tv, VClass):
            return [tv.qual]
        if isinstance(tv, VTuple):
            out = []
            for x in tv.items:
                out.extend(self.class_names_of(x, node))
            return out
        if isinstance(tv, VFunc) and tv.kind == "external":
            nm = tv.name.split(".")[-1]
            if nm in BUILTIN_EXC:
                return [nm]
            if tv.name in ("socket.error",):
                return ["OSError"]
        raise OutOfSubset("except clause type %r" % (tv,), node)

    # ---- loops
    def s_While(self, node, fr):
        from .loops import exec_while
        exec_while(self, node, fr)

    def s_For(self, node, fr):
        from .loops import exec_for
        exec_for(self, node, fr)

    # ------------------------------------------------------------------ calls
    def call_function_node(self, modname, qual, fn, args, kwargs, node, fr, closure_frame=None):
        """execute a function body inline (callee frame)."""
        env = {}
        if closure_frame is not None:
            env.update(closure_frame.env)
        self.bind_params(fn, args, kwargs, env, modname, qual, node)
        f2 = Frame(modname, qual, env, args[0] if (args and fn.args.args and fn.args.args[0].arg == "self") else None)
        if closure_frame is not None:
            f2.cells = {k: closure_frame for k in closure_frame.env}
        depth = getattr(fr, "depth", 0) + 1 if fr is not None else 1
        if depth > 12:
            raise OutOfSubset("inline depth", node)
        f2.depth = depth
        if any(isinstance(n, (ast.Yield, ast.YieldFrom)) for n in ast.walk(fn)):
            return VOpaque("generator:" + qual)
        try:
            self.exec_block(fn.body, f2)
        except ReturnSig as r:
            return r.val
        return NONE

    def bind_params(self, fn, args, kwargs, env, modname, qual, node):
        a = fn.args
        params = [p.arg for p in a.posonlyargs + a.args]
        if len(args) > len(params) and not a.vararg:
            raise RaiseSig(VExc("TypeError"))
        for p, v in zip(params, args):
            env[p] = v
        if a.vararg:
            env[a.vararg.arg] = VTuple(args[len(params):])
        defaults = a.defaults
        dstart = len(params) - len(defaults)
        for i, p in enumerate(params):
            if p in env:
                continue
            if p in kwargs:
                env[p] = kwargs.pop(p)
            elif i >= dstart:
                env[p] = self.eval(defaults[i - dstart], Frame(modname, qual, {}))
            else:
                raise RaiseSig(VExc("TypeError"))
        for p, d in zip(a.kwonlyargs, a.kw_defaults):
            if p.arg in kwargs:
                env[p.arg] = kwargs.pop(p.arg)
            elif d is not None:
                env[p.arg] = self.eval(d, Frame(modname, qual, {}))
        if a.kwarg:
            env[a.kwarg.arg] = self.new_dict(DictModel({k: (z3.BoolVal(True), v) for k, v in kwargs.items()}, False))
        elif kwargs:
            raise RaiseSig(VExc("TypeError"))

    def call_method(self, recv, name, args, kwargs, node, fr=None):
        from .builtins_model import call_value
        f = self.getattr(recv, name, node, fr)
        return call_value(self, f, args, kwargs, node, fr)


class _NeedFork(Exception):
    pass


BUILTIN_FUNCS = {"len", "int", "str", "bytes", "isinstance", "hasattr", "getattr", "min", "max", "hex", "repr", "sorted",
                 "list", "dict", "set", "tuple", "bool", "range", "enumerate", "zip", "filter", "frozenset", "id", "super", "type",
                 "iter", "next", "callable", "setattr", "abs", "sum", "any", "all", "print"}
