"""Monitor rule (DESIGN section 5, R1 + R2) as an engine hook.

For a lock L of the object under verification with protected fields P and invariant I:
  * acquiring L (with-statement, acquire()) havocs P and assumes I        (other threads ran)
  * releasing L (end of with, release()) and cv.wait() oblige I           (R2)
  * cv.wait() then havocs P and assumes I again
  * every write to a field of P (or in-place mutation of the container stored there) obliges
    "L is held"                                                            (R1)
  * notify()/wait() oblige "L is held"
Locks are objects of the model classes threading.Lock / threading.Condition."""
import z3

from .contract import ClassSpec, EnvSpec, Obj, field_type, havoc_like
from .pyvc import NONE, OutOfSubset, VBool, VDict, VList, VObj, VSet

LOCK = "threading.Lock"
COND = "threading.Condition"


class MonitorSpec:
    def __init__(self, lock_field, protected, invariants=(), name=None, exempt_funcs=()):
        self.lock_field = lock_field
        self.protected = list(protected)
        self.invariants = list(invariants)       # [(name, text over self)]
        self.name = name or lock_field
        self.exempt_funcs = set(exempt_funcs)    # constructors
        self.exempt = set()                      # {(field, function name)}: documented single-writer hand-overs
        self.unlocked_ok = None                  # callable(eng, me) -> z3 Bool: ownership condition under which unlocked access is allowed (R3)
        self.unlocked_fields = set()             # protected fields that may also be written without the lock
        self.assumed = []                        # [(name, text)] assumed with the invariant, never proved
        self.wait_post = None                    # text assumed after wait(): the notifiers' guarantee (their side is an obligation)


def lock_of(eng, v):
    v = eng.force(v)
    if isinstance(v, VObj) and v.cls == LOCK:
        return v
    if isinstance(v, VObj) and v.cls == COND:
        return eng.force(eng.state.heap[(v.oid, "lock")])
    return None


class MonitorHook:
    def __init__(self, specs, self_getter):
        self.specs = specs
        self.self_getter = self_getter     # callable(eng) -> VObj under verification (or None)
        self.relcount = {}

    # ---------------------------------------------------------------- helpers
    def held(self, eng):
        return eng.state.ghost.setdefault("held", {})

    def specs_for(self, eng, lock):
        me = self.self_getter(eng)
        out = []
        if me is None:
            return out
        for sp in self.specs:
            lv = eng.state.heap.get((me.oid, sp.lock_field))
            if lv is not None and lock_of(eng, lv) is not None and lock_of(eng, lv).oid == lock.oid:
                out.append(sp)
        return out

    def havoc_assume(self, eng, lock):
        me = self.self_getter(eng)
        for sp in self.specs_for(eng, lock):
            for f in sp.protected:
                cur = eng.state.heap.get((me.oid, f))
                ty = field_type(eng, me, f)
                if cur is None and ty is None:
                    continue
                eng.state.heap[(me.oid, f)] = havoc_like(eng, cur, "mon.%s" % f, ty if cur is None else None)
            eng.assuming = True
            try:
                for nm, text in sp.invariants + sp.assumed:
                    eng.assume(eng.truth(eng.eval_spec(text, {"self": me}, me.cls.split(".")[0])))
                con = eng.reg.contract(eng.cur_func_qual() or "")
                env = dict(getattr(eng, "entry_env", None) or {"self": me})
                if con is not None:
                    for nm, text in con.rely:
                        eng.assume(eng.truth(eng.eval_spec(text, env, me.cls.split(".")[0])))
                    rec = eng.state.ghost.setdefault("mon_pre", {})
                    for nm, text in con.monitor_preserves:
                        rec[nm] = eng.force(eng.eval_spec(text, env, me.cls.split(".")[0])).t
            finally:
                eng.assuming = False

    def oblige_inv(self, eng, lock, where):
        me = self.self_getter(eng)
        for sp in self.specs_for(eng, lock):
            k = self.relcount.get((eng.cur_func, where), 0)
            for nm, text in sp.invariants:
                eng.oblige("%s/monitor[%s]:%s@%s" % (eng.cur_func, sp.name, nm, where),
                           eng.truth(eng.eval_spec(text, {"self": me}, me.cls.split(".")[0])), clause=text, kind="monitor")
            con = eng.reg.contract(eng.cur_func_qual() or "")
            if con is not None:
                env = dict(getattr(eng, "entry_env", None) or {"self": me})
                # what THIS function must have published by the time it gives the lock back (other threads act on it next)
                for nm, text in (getattr(con, "at_release", None) or {}).get(sp.lock_field, []):
                    eng.oblige("%s/monitor[%s]:%s@%s" % (eng.cur_func, sp.name, nm, where),
                               eng.truth(eng.eval_spec(text, env, me.cls.split(".")[0])), clause=text, kind="monitor")
                rec = eng.state.ghost.get("mon_pre", {})
                for nm, text in con.monitor_preserves:
                    if nm in rec:
                        cur = eng.force(eng.eval_spec(text, env, me.cls.split(".")[0])).t
                        eng.oblige("%s/monitor[%s]:preserves-%s@%s" % (eng.cur_func, sp.name, nm, where), cur == rec[nm],
                                   clause="%s is the same when the lock is released as when it was acquired" % text, kind="monitor")

    def acquire(self, eng, lock):
        h = self.held(eng)
        n = h.get(lock.oid, 0)
        h[lock.oid] = n + 1
        if n == 0:
            self.havoc_assume(eng, lock)
        else:
            # taken again by its holder: fine for the re-entrant lock the constructor is obliged to create (C05 clause of __init__), a
            # self-deadlock for a plain one
            eng.oblige("%s/lock:nested-acquire-only-of-a-re-entrant-lock" % eng.cur_func, z3.BoolVal(lock.oid not in eng.state.ghost.get("plain_locks", set())),
                       clause="a lock acquired while already held by the same thread is re-entrant", kind="discipline")

    def release(self, eng, lock, where):
        h = self.held(eng)
        n = h.get(lock.oid, 0)
        if n == 0:
            eng.oblige("%s/lock:release-of-unheld-lock" % eng.cur_func, z3.BoolVal(False), kind="discipline")
            return
        if n == 1:
            self.oblige_inv(eng, lock, where)
        h[lock.oid] = n - 1

    # ------------------------------------------------------------------ events
    def on_with_enter(self, eng, cm=None, node=None, frame=None):
        lock = lock_of(eng, cm)
        if lock is not None:
            self.acquire(eng, lock)

    def on_with_exit(self, eng, cm=None, node=None, frame=None):
        lock = lock_of(eng, cm)
        if lock is not None:
            self.release(eng, lock, "release")

    def check_write(self, eng, obj, field, node):
        me = self.self_getter(eng)
        if me is None or obj.oid != me.oid:
            return
        if eng.cur_func.split("@")[0].split(".")[-1] == "__init__":
            return
        fname = eng.cur_func.split("@")[0].split(".")[-1]
        for sp in self.specs:
            if field in sp.protected and eng.cur_func not in sp.exempt_funcs:
                if (field, fname) in sp.exempt or field in sp.unlocked_fields:
                    continue
                lv = eng.state.heap.get((me.oid, sp.lock_field))
                lock = lock_of(eng, lv) if lv is not None else None
                ok = z3.BoolVal(lock is not None and self.held(eng).get(lock.oid, 0) > 0)
                uo = getattr(sp, "field_unlocked_ok", {}).get(field, sp.unlocked_ok)
                if uo is not None:
                    ok = z3.Or(ok, uo(eng, me))
                eng.oblige("%s/R1[%s]:%s-written-with-lock-held" % (eng.cur_func, sp.name, field), ok,
                           clause="every write to self.%s happens with self.%s held" % (field, sp.lock_field), kind="discipline")

    def on_attr_write(self, eng, obj=None, field=None, val=None, node=None):
        if isinstance(obj, VObj):
            self.check_write(eng, obj, field, node)

    def _container_field(self, eng, ident_pred):
        me = self.self_getter(eng)
        if me is None:
            return None
        for sp in self.specs:
            for f in sp.protected:
                v = eng.state.heap.get((me.oid, f))
                if v is not None and ident_pred(eng.force(v) if not isinstance(v, (VList, VSet, VDict)) else v):
                    return f
        return None

    def on_list_write(self, eng, lst=None, node=None, **kw):
        f = self._container_field(eng, lambda v: isinstance(v, VList) and v.lid == lst.lid)
        if f:
            self.check_write(eng, self.self_getter(eng), f, node)

    def on_set_write(self, eng, st=None, node=None, **kw):
        f = self._container_field(eng, lambda v: isinstance(v, VSet) and v.sid == st.sid)
        if f:
            self.check_write(eng, self.self_getter(eng), f, node)

    def on_dict_write(self, eng, d=None, node=None, **kw):
        f = self._container_field(eng, lambda v: isinstance(v, VDict) and v.did == d.did)
        if f:
            self.check_write(eng, self.self_getter(eng), f, node)


# ------------------------------------------------------------------ model classes
def install_threading(reg, hook_getter):
    """hook_getter() -> the MonitorHook of the running engine"""
    def new_lock(eng, args, kwargs, node, fr):
        o = eng.new_obj(LOCK)
        eng.state.ghost.setdefault("plain_locks", set()).add(o.oid)        # threading.Lock(): a second acquire by the holder blocks for ever
        return o

    def new_rlock(eng, args, kwargs, node, fr):
        return eng.new_obj(LOCK)

    def new_cond(eng, args, kwargs, node, fr):
        o = eng.new_obj(COND)
        lk = eng.force(args[0]) if args else eng.new_obj(LOCK)               # Condition() makes its own RLock
        eng.state.heap[(o.oid, "lock")] = lk
        return o

    def reentrant(eng, v):
        """spec function: the lock behind v was created re-entrant (RLock(), Condition() or Condition(RLock()))"""
        lk = lock_of(eng, v)
        if lk is None:
            return VBool(False)
        return VBool(lk.oid not in eng.state.ghost.get("plain_locks", set()))
    reg.spec_funcs["reentrant"] = reentrant

    def must_hold(eng, recv, what):
        lock = lock_of(eng, recv)
        held = eng.state.ghost.setdefault("held", {}).get(lock.oid, 0) > 0
        eng.oblige("%s/lock:%s-with-lock-held" % (eng.cur_func, what), z3.BoolVal(held), clause="Condition.%s() requires its lock" % what, kind="discipline")
        return lock

    def cv_wait(eng, recv, args, result):
        lock = must_hold(eng, recv, "wait")
        hook = hook_getter(eng)
        eng.emit("cv_wait", cond=recv)
        if hook is not None:
            hook.oblige_inv(eng, lock, "wait")
            hook.havoc_assume(eng, lock)
            me = hook.self_getter(eng)
            for sp in hook.specs_for(eng, lock):
                if sp.wait_post:
                    eng.assume(eng.truth(eng.eval_spec(sp.wait_post, {"self": me}, me.cls.split(".")[0])))
        return VBool(True)

    def cv_notify(eng, recv, args, result):
        must_hold(eng, recv, "notify")
        eng.state.ghost["notified:%d" % recv.oid] = True
        eng.emit("cv_notify", cond=recv)
        return NONE

    def cv_notify_all(eng, recv, args, result):
        must_hold(eng, recv, "notify_all")
        eng.state.ghost["notified:%d" % recv.oid] = True
        eng.state.ghost["notified_all:%d" % recv.oid] = True      # every waiter is woken, not just one
        eng.emit("cv_notify", cond=recv)
        return NONE

    def lk_acquire(eng, recv, args, result):
        lock = lock_of(eng, recv)
        hook = hook_getter(eng)
        blocking = True
        if args:
            b = eng.force(args[0])
            blocking = not (isinstance(b, VBool) and z3.is_false(z3.simplify(b.t)))
        if not blocking:
            got = eng.fresh_bool("acquired")
            if not eng.branch(got.t):
                return VBool(False)
        if hook is not None:
            hook.acquire(eng, lock)
        eng.state.ghost["acquired:%d" % recv.oid] = True
        return VBool(True)

    def lk_release(eng, recv, args, result):
        lock = lock_of(eng, recv)
        hook = hook_getter(eng)
        if hook is not None:
            hook.release(eng, lock, "release")
        return NONE

    lockm = {"acquire": EnvSpec(returns=None, effect=lk_acquire), "release": EnvSpec(returns=None, effect=lk_release)}
    reg.add_class(ClassSpec(LOCK, fields={}, env_methods=dict(lockm)))
    condm = dict(lockm)
    condm.update({"wait": EnvSpec(returns=None, effect=cv_wait), "notify": EnvSpec(returns=None, effect=cv_notify),
                  "notify_all": EnvSpec(returns=None, effect=cv_notify_all)})
    reg.add_class(ClassSpec(COND, fields={"lock": Obj(LOCK)}, env_methods=condm))
    reg.externals["threading.Lock"] = new_lock
    reg.externals["threading.RLock"] = new_rlock
    reg.externals["threading.Condition"] = new_cond
