"""sitelang -- symbolic execution of a fragment of a REAL function with exactly one
symbolic input, a byte string R (the raw token on the wire), where every value is a
rational function of R with a regular pre-image and every branch condition is a
regular predicate over R.  The result is the exact regular language of tokens the
fragment refuses (raises / records an error) -- for all lengths.

Values:
  ('R',)                               the raw token
  ('strip', t, mask, left, right)      t.strip(chars) / lstrip / rstrip
  ('before', t, sep)                   t[:t.find(sep)]      (valid where sep in t)
  ('from', t, sep, skip)               t[t.find(sep)+skip:] (valid where sep in t)
  ('find', t, sep)                     t.find(sep)
  ('match', pat, method, t)            RE.method(t)   (match object or None)
  ('group', m, name)                   m[name] / m.group(name)
  ('upper', g)                         g.upper()
  ('const', b)                         bytes/str/int/None/bool/tuple constant
  ('tuple', [v..])
  OPAQUE                               anything else
Conditions are ('cond', DFA) over R, ('const', bool) or OPAQUE.
Anything the vocabulary cannot express raises Unsupported -> the site is UNDECIDED
(never a violation) and the bounded site check stands in.
"""
import ast

from . import relang as rl
from .relang import Unsupported

OPAQUE = ("opaque",)
BYTES_WS = rl.mask_of(b" \t\n\r\x0b\x0c")
STR_WS_LATIN1 = rl.mask_of([c for c in range(256) if chr(c).isspace()])


class Raised(Exception):
    pass


class Fork(Exception):
    """an operation that raises `exc` exactly when the regular condition `cond` holds"""
    def __init__(self, key, cond, exc):
        self.key, self.cond, self.exc = key, cond, exc


# builtin exception classes a handler name catches (only what the fragments need)
CATCHES = {
    "UnicodeError": {"UnicodeError", "UnicodeDecodeError", "UnicodeEncodeError"},
    "UnicodeDecodeError": {"UnicodeDecodeError"},
    "ValueError": {"ValueError", "UnicodeError", "UnicodeDecodeError", "UnicodeEncodeError"},
    "Exception": None, "BaseException": None,     # None = everything
}
HIGH = rl.mask_range(0x80, 0xFF)


class Path:
    __slots__ = ("lang", "env", "opq", "flags", "outcome", "ret")

    def __init__(self, lang, env, opq=(), flags=frozenset(), outcome=None, ret=None):
        self.lang, self.env, self.opq, self.flags, self.outcome, self.ret = lang, env, opq, flags, outcome, ret

    def fork(self, **kw):
        p = Path(self.lang, dict(self.env), self.opq, self.flags, self.outcome, self.ret)
        for k, v in kw.items():
            setattr(p, k, v)
        return p


class SiteEval:
    def __init__(self, repo, alpha, modname, is_bytes=True, error_attr="error", accept_calls=("int",)):
        self.repo = repo
        self.alpha = alpha
        self.modname = modname
        self.mod = repo.module(modname)
        self.is_bytes = is_bytes
        self.error_attr = error_attr
        self.accept_calls = accept_calls
        self.universe = rl.dfa(alpha, rl.SIGMA_STAR)
        self.empty = self.universe.complement()
        self._opq_n = 0
        self.patterns_used = {}
        self.ops_seen = []
        self.conversions = []

    # ------------------------------------------------------------ languages
    def pre(self, term, L):
        """{ R : term(R) in L }  (for 'before'/'from' additionally: sep occurs)"""
        k = term[0]
        if k == "R":
            return L
        if k == "strip":
            return self.pre(term[1], rl.pre_strip(self.alpha, L, term[2], term[3], term[4]))
        if k == "before":
            return self.pre(term[1], rl.pre_before_first(self.alpha, L, term[2]))
        if k == "from":
            return self.pre(term[1], rl.pre_from_first(self.alpha, L, term[2], term[3]))
        if k == "const" and isinstance(term[1], (bytes, str)):
            b = term[1] if isinstance(term[1], bytes) else term[1].encode("latin-1")
            return self.universe if L.accepts(b) else self.empty
        raise Unsupported("pre-image of %s" % k)

    def lit(self, b):
        return rl.dfa(self.alpha, rl.rlit(b))

    def contains(self, sep):
        return rl.dfa(self.alpha, rl.rcat(rl.SIGMA_STAR, rl.rlit(sep), rl.SIGMA_STAR))

    def is_term(self, v):
        return isinstance(v, tuple) and v and v[0] in ("R", "strip", "before", "from")

    def depends(self, v):
        if not isinstance(v, tuple) or not v:
            return False
        if v[0] == "R":
            return True
        if v[0] in ("const", "opaque"):
            return False
        if v[0] == "tuple":
            return any(self.depends(x) for x in v[1])
        if v[0] == "cond":
            return True
        return any(self.depends(x) for x in v[1:] if isinstance(x, tuple))

    # ---------------------------------------------------------- conditions
    def truth(self, v):
        """value -> condition"""
        k = v[0]
        if k == "cond":
            return v
        if k == "const":
            return ("const", bool(v[1]))
        if self.is_term(v):
            return ("cond", self.pre(v, self.lit(b"").complement()))
        if k == "match":
            pat, method, t = v[1], v[2], v[3]
            return ("cond", self.pre(t, rl.dfa(self.alpha, pat.language(method))))
        if k == "tuple":
            return ("const", len(v[1]) > 0)
        return OPAQUE

    def c_not(self, c):
        if c == OPAQUE:
            return OPAQUE
        if c[0] == "const":
            return ("const", not c[1])
        return ("cond", c[1].complement())

    def c_and(self, a, b):
        if a[0] == "const":
            return b if a[1] else a
        if b[0] == "const":
            return a if b[1] else b
        if a == OPAQUE or b == OPAQUE:
            return OPAQUE
        return ("cond", a[1] & b[1])

    def c_or(self, a, b):
        return self.c_not(self.c_and(self.c_not(a), self.c_not(b)))

    # --------------------------------------------------------- expressions
    def const_of(self, node):
        try:
            return ast.literal_eval(node)
        except Exception:
            return None

    def resolve_global(self, name):
        return getattr(self.mod, name, None)

    def eval(self, node, p):
        if isinstance(node, ast.Constant):
            return ("const", node.value)
        if isinstance(node, ast.Name):
            if node.id in p.env:
                return p.env[node.id]
            return OPAQUE
        if isinstance(node, ast.Attribute):
            key = ast.unparse(node)
            return p.env.get(key, OPAQUE)
        if isinstance(node, ast.Tuple):
            return ("tuple", [self.eval(e, p) for e in node.elts])
        if isinstance(node, ast.UnaryOp) and isinstance(node.op, ast.Not):
            return self.c_not(self.truth(self.eval(node.operand, p)))
        if isinstance(node, ast.BoolOp):
            vals = [self.eval(v, p) for v in node.values]
            if isinstance(node.op, ast.Or) and len(vals) == 2 and vals[0][0] == "group" and vals[1][0] == "const":
                # `m["version"] or b""` : a value, not a condition
                return ("group_or", vals[0], vals[1])
            conds = [self.truth(v) for v in vals]
            out = conds[0]
            for c in conds[1:]:
                out = self.c_and(out, c) if isinstance(node.op, ast.And) else self.c_or(out, c)
            return out
        if isinstance(node, ast.Compare):
            return self.eval_compare(node, p)
        if isinstance(node, ast.Subscript):
            return self.eval_subscript(node, p)
        if isinstance(node, ast.Call):
            return self.eval_call(node, p)
        if isinstance(node, ast.BinOp):
            l, r = self.eval(node.left, p), self.eval(node.right, p)
            if isinstance(node.op, ast.Add) and l[0] == "find" and r[0] == "const" and isinstance(r[1], int):
                return ("findplus", l, r[1])
            if self.depends(l) or self.depends(r):
                if isinstance(node.op, ast.Mod):   # "... %s" % str(line) : message formatting
                    return OPAQUE
                raise Unsupported("binop on token-derived value: %s" % ast.unparse(node))
            return OPAQUE
        if isinstance(node, ast.JoinedStr):
            return OPAQUE
        if isinstance(node, (ast.List, ast.Dict, ast.Set, ast.ListComp, ast.Lambda, ast.IfExp)):
            for sub in ast.walk(node):
                if isinstance(sub, ast.Name) and self.depends(p.env.get(sub.id, OPAQUE)):
                    raise Unsupported("container/ifexp over token-derived value: %s" % ast.unparse(node))
            return OPAQUE
        raise Unsupported("expression %s" % ast.dump(node)[:80])

    def eval_subscript(self, node, p):
        base = self.eval(node.value, p)
        sl = node.slice
        if base[0] == "match" or base[0] == "group_tuple":
            c = self.const_of(sl)
            if base[0] == "match" and isinstance(c, str):
                return ("group", base, c)
        if self.is_term(base):
            if isinstance(sl, ast.Slice) and sl.step is None:
                lo = self.eval(sl.lower, p) if sl.lower is not None else None
                hi = self.eval(sl.upper, p) if sl.upper is not None else None
                if lo is None and hi is not None and hi[0] == "find" and hi[1] == base:
                    self.ops_seen.append("prefix-before-first %r" % (hi[2],))
                    return ("before", base, hi[2])
                if hi is None and lo is not None and lo[0] == "find" and lo[1] == base:
                    self.ops_seen.append("suffix-from-first %r" % (lo[2],))
                    return ("from", base, lo[2], 0)
                if hi is None and lo is not None and lo[0] == "findplus" and lo[1][1] == base:
                    self.ops_seen.append("suffix-after-first %r +%d" % (lo[1][2], lo[2]))
                    return ("from", base, lo[1][2], lo[2])
            raise Unsupported("slice of token: %s" % ast.unparse(node))
        if base[0] == "group" and isinstance(sl, ast.Slice) and sl.lower is None and sl.step is None \
                and isinstance(sl.upper, ast.Constant) and isinstance(sl.upper.value, int) and sl.upper.value >= 0:
            return ("gprefix", base, sl.upper.value)
        if base[0] in ("group", "group_or", "upper", "gprefix"):
            return OPAQUE      # processing of an extracted field: beyond the gate (bounded validation guards this)
        if self.depends(base):
            raise Unsupported("subscript of token-derived value: %s" % ast.unparse(node))
        return OPAQUE

    def eval_compare(self, node, p):
        if len(node.ops) > 1:
            # chain a == b == c == K : true only if every element equals K
            if all(isinstance(o, ast.Eq) for o in node.ops):
                vals = [self.eval(node.left, p)] + [self.eval(c, p) for c in node.comparators]
                K = vals[-1]
                if K[0] == "const":
                    verdicts = [self.eq_const(v, K[1]) for v in vals[:-1]]
                    if any(v == ("const", False) for v in verdicts):
                        return ("const", False)
                    if all(v == ("const", True) for v in verdicts):
                        return ("const", True)
            if any(self.depends(self.eval(c, p)) for c in [node.left] + node.comparators):
                raise Unsupported("comparison chain: %s" % ast.unparse(node))
            return OPAQUE
        op = node.ops[0]
        l, r = self.eval(node.left, p), self.eval(node.comparators[0], p)
        if isinstance(op, (ast.Is, ast.IsNot)):
            if r == ("const", None) and l[0] == "match":
                c = self.c_not(self.truth(l))
                return c if isinstance(op, ast.Is) else self.c_not(c)
            if r == ("const", None) and (self.is_term(l)):
                return ("const", isinstance(op, ast.IsNot))
            if self.depends(l):
                raise Unsupported("is-comparison %s" % ast.unparse(node))
            return OPAQUE
        if isinstance(op, (ast.In, ast.NotIn)):
            if l[0] == "const" and isinstance(l[1], (bytes, str)) and self.is_term(r):
                sep = l[1] if isinstance(l[1], bytes) else l[1].encode("latin-1")
                c = ("cond", self.pre(r, self.contains(sep)))
                return c if isinstance(op, ast.In) else self.c_not(c)
            if self.is_term(l) or self.is_term(r):
                raise Unsupported("membership %s" % ast.unparse(node))
            return OPAQUE     # e.g. b"_" in key (group), key1 in headers
        if l[0] == "find" and r[0] == "const" and isinstance(r[1], int):
            t, sep, k = l[1], l[2], r[1]
            has = ("cond", self.pre(t, self.contains(sep)))
            at0 = ("cond", self.pre(t, rl.dfa(self.alpha, rl.rcat(rl.rlit(sep), rl.SIGMA_STAR))))
            table = {
                (ast.GtE, 0): has, (ast.Lt, 0): self.c_not(has), (ast.Gt, -1): has, (ast.LtE, -1): self.c_not(has),
                (ast.Eq, -1): self.c_not(has), (ast.NotEq, -1): has, (ast.Eq, 0): at0, (ast.NotEq, 0): self.c_not(at0),
                (ast.Gt, 0): self.c_and(has, self.c_not(at0)), (ast.LtE, 0): self.c_or(self.c_not(has), at0),
            }
            key = (type(op), k)
            if key in table:
                return table[key]
            raise Unsupported("find comparison %s" % ast.unparse(node))
        if isinstance(op, (ast.Eq, ast.NotEq)):
            c = None
            if r[0] == "const":
                c = self.eq_const(l, r[1])
            elif l[0] == "const":
                c = self.eq_const(r, l[1])
            elif r[0] == "upper" and r[1] == l and l[0] == "group":
                c = self.c_not(self.group_has_lower(l))
            elif l[0] == "upper" and l[1] == r and r[0] == "group":
                c = self.c_not(self.group_has_lower(r))
            if c is None:
                if self.depends(l) or self.depends(r):
                    raise Unsupported("equality %s" % ast.unparse(node))
                return OPAQUE
            return c if isinstance(op, ast.Eq) else self.c_not(c)
        if self.depends(l) or self.depends(r):
            raise Unsupported("comparison %s" % ast.unparse(node))
        return OPAQUE

    def eq_const(self, v, k):
        if v[0] == "const":
            return ("const", v[1] == k)
        if self.is_term(v) and isinstance(k, (bytes, str)):
            kb = k if isinstance(k, bytes) else k.encode("latin-1")
            return ("cond", self.pre(v, self.lit(kb)))
        if v[0] == "group" and isinstance(k, (bytes, str)):
            kb = k if isinstance(k, bytes) else k.encode("latin-1")
            m = v[1]
            gl = rl.dfa(self.alpha, m[1].group_language(v[2]))
            if not gl.accepts(kb):
                return ("const", False)   # a participating group can never hold k
            return OPAQUE
        if v[0] == "gprefix" and isinstance(k, (bytes, str)):
            kb = k if isinstance(k, bytes) else k.encode("latin-1")
            n = v[2]
            if len(kb) > n:
                return ("const", False)
            if len(kb) == n:
                X = rl.dfa(self.alpha, rl.rcat(rl.rlit(kb), rl.SIGMA_STAR))
            else:
                X = self.lit(kb)
            return self.group_cond(v[1], X)
        if v[0] in ("group_or", "gprefix"):
            return OPAQUE
        if v == OPAQUE:
            return OPAQUE
        raise Unsupported("equality with constant on %s" % (v[0],))

    def group_cond(self, g, X):
        """{R : group g of its match lies in the DFA X}; existential over parses, with the check
        that no string has parses on both sides (else Unsupported)."""
        m = g[1]
        pat, method, t = m[1], m[2], m[3]
        Lx = rl.dfa(self.alpha, pat.with_group_in(g[2], X).language(method))
        Ln = rl.dfa(self.alpha, pat.with_group_in(g[2], X.complement()).language(method))
        if not (Lx & Ln).is_empty():
            # parse-dependent: treat the predicate as unknown (both outcomes explored)
            self.ops_seen.append("group %s parse-ambiguous: predicate treated as opaque" % g[2])
            return OPAQUE
        return ("cond", self.pre(t, Lx))

    def group_has_lower(self, g):
        """{R : group g of the match contains a byte in a-z}.  Computed on the pattern with the
        group's sub-regex intersected with 'contains a-z'; sound only when no string has two
        parses that disagree on it, which is checked (else Unsupported)."""
        m = g[1]
        pat, method, t = m[1], m[2], m[3]
        lower = rl.rset(rl.mask_range(0x61, 0x7A))
        X = rl.dfa(self.alpha, rl.rcat(rl.SIGMA_STAR, lower, rl.SIGMA_STAR))
        Lx = rl.dfa(self.alpha, pat.with_group_in(g[2], X).language(method))
        Ln = rl.dfa(self.alpha, pat.with_group_in(g[2], X.complement()).language(method))
        if not (Lx & Ln).is_empty():
            raise Unsupported("group %s is parse-ambiguous for this predicate" % g[2])
        return ("cond", self.pre(t, Lx))

    def eval_call(self, node, p):
        f = node.func
        args = [self.eval(a, p) for a in node.args]
        if isinstance(f, ast.Attribute):
            recv = self.eval(f.value, p)
            name = f.attr
            # compiled pattern methods
            if name in ("match", "fullmatch", "search") and isinstance(f.value, ast.Name) and not self.depends(recv):
                obj = self.resolve_global(f.value.id)
                if obj is not None and hasattr(obj, "pattern") and hasattr(obj, "groupindex"):
                    pat = rl.PyPattern(obj)
                    self.patterns_used[f.value.id] = (obj.pattern, name)
                    if len(args) != 1:
                        raise Unsupported("pattern call arity")
                    if self.is_term(args[0]):
                        return ("match", pat, name, args[0])
                    if self.depends(args[0]):
                        raise Unsupported("pattern applied to non-term")
                    return OPAQUE
            if recv[0] == "match" and name == "group":
                names = [a[1] for a in args if a[0] == "const"]
                if len(names) != len(args):
                    raise Unsupported("group() with non-constant")
                gs = [("group", recv, n) for n in names]
                return gs[0] if len(gs) == 1 else ("tuple", gs)
            if self.is_term(recv):
                if name in ("strip", "lstrip", "rstrip"):
                    if args:
                        if args[0][0] != "const" or not isinstance(args[0][1], (bytes, str)):
                            raise Unsupported("strip with non-constant")
                        chars = args[0][1]
                        mask = rl.mask_of(chars if isinstance(chars, bytes) else chars.encode("latin-1"))
                    else:
                        mask = BYTES_WS if self.is_bytes else STR_WS_LATIN1
                    self.ops_seen.append("%s(%s)" % (name, "" if not args else repr(args[0][1])))
                    return ("strip", recv, mask, name != "rstrip", name != "lstrip")
                if name == "find":
                    if len(args) != 1 or args[0][0] != "const":
                        raise Unsupported("find with non-constant")
                    sep = args[0][1]
                    return ("find", recv, sep if isinstance(sep, bytes) else sep.encode("latin-1"))
                if name in ("encode", "decode"):
                    if args and args[0] == ("const", "latin-1") and len(args) == 1:
                        return recv
                    raise Unsupported("codec other than latin-1")
                if name == "startswith":
                    if len(args) == 1 and args[0][0] in ("const",):
                        alts = args[0][1] if isinstance(args[0][1], tuple) else (args[0][1],)
                        r = rl.ralt(*[rl.rcat(rl.rlit(a), rl.SIGMA_STAR) for a in alts])
                        return ("cond", self.pre(recv, rl.dfa(self.alpha, r)))
                    if len(args) == 1 and args[0][0] == "tuple" and all(a[0] == "const" for a in args[0][1]):
                        r = rl.ralt(*[rl.rcat(rl.rlit(a[1]), rl.SIGMA_STAR) for a in args[0][1]])
                        return ("cond", self.pre(recv, rl.dfa(self.alpha, r)))
                if name == "endswith" and len(args) == 1 and args[0][0] == "const" and isinstance(args[0][1], (bytes, str)):
                    return ("cond", self.pre(recv, rl.dfa(self.alpha, rl.rcat(rl.SIGMA_STAR, rl.rlit(args[0][1])))))
                raise Unsupported("method %s on token" % name)
            if recv[0] == "group" and name == "upper" and not args:
                return ("upper", recv)
            if recv[0] in ("group", "group_or", "upper"):
                return OPAQUE    # further processing of an extracted field: not part of the gate
            if self.depends(recv):
                raise Unsupported("method %s on %s" % (name, recv[0]))
            if name == "urlsplit" and isinstance(f.value, ast.Name) and len(args) == 1 and args[0][0] == "group" and self.is_bytes:
                import urllib.parse
                holder = self.resolve_global(f.value.id)
                if getattr(holder, "urlsplit", None) is urllib.parse.urlsplit:
                    key = "urlsplit@%d:%d" % (node.lineno, node.col_offset)
                    if key not in p.env.get("__resolved__", ()):
                        X = rl.dfa(self.alpha, rl.rcat(rl.SIGMA_STAR, rl.rset(HIGH), rl.SIGMA_STAR))
                        raise Fork(key, self.group_cond(args[0], X), "UnicodeDecodeError")
                    return OPAQUE
            # opaque receiver; token-derived arguments just flow into an opaque effect
            return OPAQUE
        if isinstance(f, ast.Name):
            if f.id in self.accept_calls and args and (self.is_term(args[0])):
                base = args[1][1] if len(args) > 1 and args[1][0] == "const" else 10
                key = "int@%d:%d" % (node.lineno, node.col_offset)
                if f.id == "int" and base in (10, 16) and key not in p.env.get("__resolved__", ()):
                    # int() is itself a gate: outside its literal syntax it raises ValueError (which the caller may catch and turn
                    # into a refusal); record what reaches it first, then split on the literal syntax
                    self.conversions.append((p.lang, args[0], f.id, base))
                    from spec import rfc
                    lit = rl.dfa(self.alpha, rfc.PY_INT10 if base == 10 else rfc.PY_INT16)
                    raise Fork(key, ("cond", self.universe - self.pre(args[0], lit)), "ValueError")
                p.flags = p.flags | {"accept:" + f.id}
                if f.id != "int" or base not in (10, 16):
                    self.conversions.append((p.lang, args[0], f.id, base))
                return OPAQUE
            if f.id in ("str", "repr", "len", "bytes") :
                return OPAQUE
            target = self.repo.find(self.modname + "." + f.id)
            if isinstance(target, ast.FunctionDef) and any(self.is_term(a) or a[0] == "group" for a in args):
                # a pure one-expression helper (`def ok(x): return RE.fullmatch(x) is not None`) is evaluated in place, so it can
                # stand inside a condition; anything longer is inlined at statement level
                body = [b for b in target.body if not (isinstance(b, ast.Expr) and isinstance(b.value, ast.Constant))]
                params = [a.arg for a in target.args.args]
                if (len(body) == 1 and isinstance(body[0], ast.Return) and body[0].value is not None and len(params) == len(args)
                        and not target.args.vararg and not target.args.kwarg and not node.keywords):
                    q = p.fork(env=dict(p.env))
                    for name, val in zip(params, args):
                        q.env[name] = val
                    return self.eval(body[0].value, q)
                return ("inline", target, args)
            cls_or_fn = self.resolve_global(f.id)
            if isinstance(cls_or_fn, type):
                return OPAQUE      # exception / error object construction
            if any(self.is_term(a) for a in args):
                raise Unsupported("call %s(token)" % f.id)
            return OPAQUE
        raise Unsupported("call form %s" % ast.unparse(node)[:60])

    # ----------------------------------------------------------- statements
    def branch(self, p, cond):
        """-> list of (path, taken) with languages narrowed"""
        if cond == OPAQUE or (isinstance(cond, tuple) and cond[0] not in ("cond", "const")):
            self._opq_n += 1
            oid = self._opq_n
            return [(p.fork(opq=p.opq + ((oid, True),)), True), (p.fork(opq=p.opq + ((oid, False),)), False)]
        if cond[0] == "const":
            return [(p, bool(cond[1]))]
        out = []
        a = p.lang & cond[1]
        if not a.is_empty():
            out.append((p.fork(lang=a), True))
        b = p.lang - cond[1]
        if not b.is_empty():
            out.append((p.fork(lang=b), False))
        return out

    def assign(self, p, target, val):
        if isinstance(target, ast.Name):
            p.env[target.id] = val
        elif isinstance(target, ast.Attribute):
            key = ast.unparse(target)
            p.env[key] = val
            if isinstance(target.value, ast.Name) and target.value.id == "self" and target.attr == self.error_attr:
                if val != ("const", None):
                    p.flags = p.flags | {"error-set"}
        elif isinstance(target, (ast.Tuple, ast.List)):
            if val[0] == "tuple" and len(val[1]) == len(target.elts):
                for t, v in zip(target.elts, val[1]):
                    self.assign(p, t, v)
            else:
                for t in target.elts:
                    self.assign(p, t, OPAQUE)
        elif isinstance(target, ast.Subscript):
            pass
        else:
            raise Unsupported("assignment target")

    def run_block(self, stmts, paths):
        """paths: list of live Path; returns list of Path (some finished: outcome set)"""
        for st in stmts:
            nxt = []
            for p in paths:
                if p.outcome is not None:
                    nxt.append(p)
                    continue
                nxt.extend(self.step(st, p))
            paths = nxt
        return paths

    def step(self, st, p):
        try:
            return self.step0(st, p)
        except Fork as fk:
            outs = []
            for q, taken in self.branch(p, fk.cond):
                if taken:
                    q.outcome = ("EXC", fk.exc)
                    outs.append(q)
                else:
                    q.env["__resolved__"] = q.env.get("__resolved__", ()) + (fk.key,)
                    outs.extend(self.step(st, q))
            return outs

    def step0(self, st, p):
        if isinstance(st, ast.Expr):
            v = self.eval(st.value, p)
            if isinstance(v, tuple) and v and v[0] == "inline":
                return [q for q in self.inline(v, p)]
            return [p]
        if isinstance(st, (ast.Assign, ast.AnnAssign)):
            value = st.value
            v = self.eval(value, p)
            targets = st.targets if isinstance(st, ast.Assign) else [st.target]
            outs = []
            if isinstance(v, tuple) and v and v[0] == "inline":
                for q in self.inline(v, p):
                    if q.outcome is None:
                        for t in targets:
                            self.assign(q, t, q.ret if q.ret is not None else OPAQUE)
                        q.ret = None
                    outs.append(q)
                return outs
            for t in targets:
                self.assign(p, t, v)
            return [p]
        if isinstance(st, ast.AugAssign):
            v = self.eval(st.value, p)
            tv = self.eval(st.target, p) if isinstance(st.target, (ast.Name, ast.Attribute)) else OPAQUE
            if self.depends(tv):
                raise Unsupported("augmented assignment to token-derived variable")
            self.assign(p, st.target, OPAQUE)
            return [p]
        if isinstance(st, ast.If):
            cond = self.truth(self.eval(st.test, p))
            outs = []
            for q, taken in self.branch(p, cond):
                outs.extend(self.run_block(st.body if taken else st.orelse, [q]))
            return outs
        if isinstance(st, ast.Raise):
            p.outcome = "REJECT"
            return [p]
        if isinstance(st, ast.Return):
            p.ret = self.eval(st.value, p) if st.value is not None else ("const", None)
            p.outcome = "RETURN"
            return [p]
        if isinstance(st, ast.Break):
            p.outcome = "BREAK"
            return [p]
        if isinstance(st, ast.Continue):
            p.outcome = "CONTINUE"
            return [p]
        if isinstance(st, ast.Pass):
            return [p]
        if isinstance(st, ast.Try):
            body = self.run_block(st.body, [p])
            outs = []
            for q in body:
                if isinstance(q.outcome, tuple) and q.outcome[0] == "EXC":
                    exc = q.outcome[1]
                    handled = False
                    for h in st.handlers:
                        hname = ast.unparse(h.type) if h.type is not None else "BaseException"
                        if hname not in CATCHES:
                            raise Unsupported("handler for %s" % hname)
                        if CATCHES[hname] is None or exc in CATCHES[hname]:
                            q.outcome = None
                            outs.extend(self.run_block(h.body, [q]))
                            handled = True
                            break
                    if not handled:
                        outs.append(q)
                elif q.outcome == "REJECT":
                    for h in st.handlers:
                        hname = ast.unparse(h.type) if h.type is not None else "BaseException"
                        if hname not in CATCHES or CATCHES[hname] is None:
                            raise Unsupported("explicit raise inside try with a handler that may catch it")
                    outs.append(q)
                else:
                    if q.outcome is None and st.orelse:
                        outs.extend(self.run_block(st.orelse, [q]))
                    else:
                        outs.append(q)
            if st.finalbody:
                fin = []
                for q in outs:
                    saved = q.outcome
                    q.outcome = None
                    for r in self.run_block(st.finalbody, [q]):
                        if r.outcome is None:
                            r.outcome = saved
                        fin.append(r)
                outs = fin
            return outs
        if isinstance(st, (ast.For, ast.While)):
            # loops not touching token-derived variables are skipped (their assigned names become opaque)
            for sub in ast.walk(st):
                if isinstance(sub, ast.Name) and isinstance(sub.ctx, ast.Load) and self.depends(p.env.get(sub.id, OPAQUE)):
                    raise Unsupported("loop reads token-derived variable %s" % sub.id)
            for sub in ast.walk(st):
                if isinstance(sub, ast.Name) and isinstance(sub.ctx, ast.Store):
                    p.env[sub.id] = OPAQUE
            return [p]
        if isinstance(st, (ast.FunctionDef, ast.Import, ast.ImportFrom, ast.Global, ast.Nonlocal, ast.Assert, ast.Delete, ast.With)):
            if isinstance(st, ast.With):
                return self.run_block(st.body, [p])
            return [p]
        raise Unsupported("statement %s" % type(st).__name__)

    def inline(self, v, p):
        _, fn, args = v
        params = [a.arg for a in fn.args.args]
        if len(params) != len(args) or fn.args.vararg or fn.args.kwarg:
            raise Unsupported("inline arity")
        saved = p.env
        q0 = p.fork(env={k: val for k, val in saved.items() if "." in k})
        for name, val in zip(params, args):
            q0.env[name] = val
        outs = []
        for q in self.run_block(fn.body, [q0]):
            attrs = {k: val for k, val in q.env.items() if "." in k}
            r = Path(q.lang, dict(saved), q.opq, q.flags, None, None)
            r.env.update(attrs)
            if q.outcome == "REJECT" or (isinstance(q.outcome, tuple) and q.outcome[0] == "EXC"):
                r.outcome = q.outcome
            elif q.outcome == "RETURN":
                r.ret = q.ret
            elif q.outcome is None:
                r.ret = ("const", None)
            else:
                raise Unsupported("break/continue escaping inlined function")
            outs.append(r)
        return outs

    # ------------------------------------------------------------- results
    def refuse_language(self, paths, domain):
        """strings of the domain refused under EVERY resolution of the opaque branches.
        Opaque decisions carry fresh ids per path prefix, so the paths form a decision tree:
        must(node) = refused-without-further-opaque  U  U_oid ( must(oid=True) & must(oid=False) )"""
        def rejected(p):
            return p.outcome == "REJECT" or "error-set" in p.flags or (isinstance(p.outcome, tuple) and p.outcome[0] == "EXC")

        def must(items):
            # items: list of (remaining opq tuple, path)
            out = self.empty
            groups = {}
            for opq, p in items:
                if not opq:
                    if rejected(p):
                        out = out | p.lang
                else:
                    groups.setdefault(opq[0][0], {True: [], False: []})[opq[0][1]].append((opq[1:], p))
            for oid, g in groups.items():
                out = out | (must(g[True]) & must(g[False]))
            return out

        return must([(p.opq, p) for p in paths]) & domain


def locate_fragment(fn, raw_var, mode, rhs_contains=None):
    """Find the statements to execute for a site.
    mode 'assign': first assignment `raw_var = <expr>`; the fragment is the rest of that block
                   followed by the statements after each enclosing compound statement (to function end
                   for enclosing `if`; to loop-body end for an enclosing loop).
    mode 'loopvar': the first `for raw_var in ...` loop; the fragment is its body.
    returns (raw_stmt, [stmts]) or None"""
    if mode == "loopvar":
        for n in ast.walk(fn):
            if isinstance(n, ast.For) and isinstance(n.target, ast.Name) and n.target.id == raw_var:
                return n, list(n.body)
        return None

    def search(stmts, cont):
        for i, st in enumerate(stmts):
            rest = stmts[i + 1:]
            if isinstance(st, ast.Assign) and len(st.targets) == 1 and isinstance(st.targets[0], ast.Name) and st.targets[0].id == raw_var \
                    and (rhs_contains is None or rhs_contains in ast.unparse(st.value)):
                return st, [st] + rest + cont
            if isinstance(st, ast.If):
                r = search(st.body, rest + cont) or search(st.orelse, rest + cont)
                if r:
                    return r
            elif isinstance(st, (ast.For, ast.While)):
                r = search(st.body, [])      # fragment ends with the loop body
                if r:
                    return r
            elif isinstance(st, ast.Try):
                r = search(st.body, rest + cont)
                if r:
                    return r
            elif isinstance(st, ast.With):
                r = search(st.body, rest + cont)
                if r:
                    return r
        return None

    return search(fn.body, [])
