"""Discharge pyvc obligations and map them onto report.Check entries."""
import json
import os
import time
from collections import OrderedDict

import z3

from . import smt
from .report import VERIF

LOCK = os.path.join(VERIF, "obligations.lock.json")


def load_lock():
    try:
        with open(LOCK) as f:
            return set(json.load(f)["discharged"])
    except Exception:
        return set()


def model_inputs(ob, model):
    """strip fresh-name suffixes for display"""
    out = {}
    for k, v in model.items():
        out[k.strip("|")] = v
    return out


def discharge(ck, eng, timeout=20, replayer=None, prefer="cvc5", only=None, max_values=40):
    """replayer(name, obligation, model) -> dict(reproduced=bool, ...) or None"""
    groups = OrderedDict()
    for ob in eng.obligations:
        if only and not only(ob):
            continue
        groups.setdefault(ob.name, []).append(ob)
    queries = []
    for name, obs in groups.items():
        for ob in obs:
            if z3.is_true(ob.goal):
                ob.query = None
                continue
            names = [n for n in ob.vars][:max_values]
            vals = ["|%s|" % n for n in names]
            q = smt.Query(name, ob.pc + [z3.Not(ob.goal)], vals)
            ob.query = q
            queries.append(q)
    t0 = time.time()
    smt.decide_all(queries, timeout=timeout, prefer=prefer)
    lock = load_lock()
    results = {}
    for name, obs in groups.items():
        qs = [ob.query for ob in obs if ob.query is not None]
        secs = sum(q.secs for q in qs)
        backends = sorted({q.backend for q in qs}) or ["simplifier"]
        sat = [ob for ob in obs if ob.query is not None and ob.query.status == "sat"]
        unk = [ob for ob in obs if ob.query is not None and ob.query.status not in ("sat", "unsat")]
        clause = obs[0].clause
        full = ck.prop + "/" + name
        if not sat and not unk:
            ck.ob(name, "discharged", backend="+".join(backends), secs=secs, clause=clause, queries=len(obs))
            results[name] = "discharged"
            continue
        if sat:
            ob = sat[0]
            model = model_inputs(ob, ob.query.model)
            rep = None
            if replayer is not None:
                try:
                    rep = replayer(name, ob, model)
                except Exception as ex:      # replay harness problems never become verdicts
                    rep = {"reproduced": False, "replay_error": repr(ex)}
            reproduced = bool(rep and rep.get("reproduced"))
            known = [e for e in ck.known_for(name) if e["status"] == "known"]
            what = "obligation refuted: %s  [clause: %s]" % (name, clause)
            payload = {"kind": ob.kind, "clause": clause, "function": ob.func, "backend": ob.query.backend, "solver_s": round(ob.query.secs, 3),
                       "model": model, "native": rep, "solver_output": ob.query.raw[:3000], "paths_refuted": len(sat), "paths_total": len(obs)}
            if known:
                ck.fail(name, known[0]["key"], known[0]["what"], replay=payload, reproduced=reproduced)
                ck.ob(name, "known-finding", backend="+".join(backends), secs=secs, clause=clause, queries=len(obs), detail={"model": model})
                results[name] = "known-finding"
                continue
            if reproduced or full in lock or ob.kind in ("discipline", "frame", "raises", "structural"):
                ck.fail(name, "refuted", what, replay=payload, reproduced=reproduced)
                ck.ob(name, "violated", backend="+".join(backends), secs=secs, clause=clause, queries=len(obs), detail={"model": model})
                results[name] = "violated"
            else:
                ck.ob(name, "undecided", backend="+".join(backends), secs=secs, clause=clause, queries=len(obs),
                      detail={"reason": "counter-model did not replay on the real code and the obligation is not in obligations.lock.json", "model": model, "native": rep})
                results[name] = "undecided"
            continue
        ck.ob(name, "undecided", backend="+".join(backends), secs=secs, clause=clause, queries=len(obs),
              detail={"reason": "solver unknown/timeout on %d of %d path queries" % (len(unk), len(obs))})
        results[name] = "undecided"
    return results
