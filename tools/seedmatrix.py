#!/usr/bin/env python3
"""usage: tools/seedmatrix.py [own|all] [jobs] [seed ids...]
Apply each seeded change (seeded/<id>/patch.diff) to a scratch copy of /repo's working tree and run the checks on it
(own: only the check of the seed's property; all: every check).  Results go to seeded/matrix.json; scratch copies are removed."""
import concurrent.futures as cf, json, os, re, shutil, subprocess, sys, tempfile
ROOT = os.path.dirname(os.path.dirname(os.path.abspath(__file__)))
mode = sys.argv[1] if len(sys.argv) > 1 else "own"
jobs = int(sys.argv[2]) if len(sys.argv) > 2 else 4
seeds = sys.argv[3:] or sorted(d for d in os.listdir(os.path.join(ROOT, "seeded")) if os.path.exists(os.path.join(ROOT, "seeded", d, "patch.diff")))
checks = sorted(f[:-3] for f in os.listdir(os.path.join(ROOT, "props")) if re.fullmatch(r"C\d\d\.py", f))


def prop_of(seed):
    return re.match(r"C\d\d", seed).group(0)


def run_seed(seed):
    d = tempfile.mkdtemp(prefix="wseed_")
    try:
        for sub in ("src", "docs"):
            shutil.copytree(os.path.join("/repo", sub), os.path.join(d, sub))
        p = subprocess.run(["patch", "-p1", "-s", "-i", os.path.join(ROOT, "seeded", seed, "patch.diff")], cwd=d, capture_output=True, text=True)
        if p.returncode != 0:
            return seed, {"error": "patch failed: " + (p.stdout + p.stderr)[-300:]}
        out = {}
        for c in ([prop_of(seed)] if mode == "own" else checks):
            r = subprocess.run([os.path.join(ROOT, "check"), c, "--repo", d, "--no-evidence"], capture_output=True, text=True)
            lines = r.stdout.splitlines()
            viol = []
            for i, l in enumerate(lines):
                if l.startswith("VIOLATION"):
                    ob = lines[i + 1].strip().replace("obligation: ", "") if i + 1 < len(lines) else ""
                    viol.append({"obligation": ob, "input": not l.rstrip().endswith("no-failing-input-found")})
            und = [l[11:200] for l in lines if l.startswith("UNDECIDED")]
            out[c] = {"exit": r.returncode, "violations": viol, "undecided": und}
        return seed, out
    finally:
        shutil.rmtree(d, ignore_errors=True)


path = os.path.join(ROOT, "seeded", "matrix.json")
matrix = json.load(open(path)) if os.path.exists(path) else {}
with cf.ThreadPoolExecutor(jobs) as ex:
    for seed, out in ex.map(run_seed, seeds):
        matrix.setdefault(seed, {}).update(out)
        caught = [c for c, v in out.items() if isinstance(v, dict) and v.get("exit") == 1]
        print(seed, "caught by", caught or "-", {c: v.get("exit") for c, v in out.items() if isinstance(v, dict) and v.get("exit") not in (0, 1)} or "", flush=True)
        json.dump(matrix, open(path, "w"), indent=1, sort_keys=True)
