#!/usr/bin/env python3
"""Record the names of all obligations discharged on the UNCHANGED tree (from evidence/*.json).
Run only when /repo is the unchanged (committed) tree.  An obligation in this file that is later
refuted without a replayable input is reported as VIOLATION ... no-failing-input-found."""
import glob, json, os, subprocess, sys
root = os.path.dirname(os.path.dirname(os.path.abspath(__file__)))
dirty = subprocess.run(["git", "-C", "/repo", "status", "--porcelain", "--untracked-files=no"], capture_output=True, text=True).stdout.strip()
if dirty:
    print("refusing: /repo has uncommitted changes"); sys.exit(1)
names = set()
for f in sorted(glob.glob(os.path.join(root, "evidence", "C*.json"))):
    d = json.load(open(f))
    for o in d["coverage"].get("obligation_list", []):
        if o["status"] == "discharged" and o.get("kind") == "deductive":
            names.add(o["name"])
head = subprocess.run(["git", "-C", "/repo", "rev-parse", "HEAD"], capture_output=True, text=True).stdout.strip()
json.dump({"repo_head": head, "discharged": sorted(names)}, open(os.path.join(root, "obligations.lock.json"), "w"), indent=0)
print(len(names), "obligations locked at", head[:10])
