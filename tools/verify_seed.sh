#!/bin/sh
# usage: tools/verify_seed.sh <id> : confirm a seeded change in a fresh scratch worktree of /repo:
#   applies, package imports, full test-suite passes with it, demo FAILs with it and PASSes without it.
id="$1"; d=/tmp/vseed_$id
git -C /repo worktree add -q $d HEAD || exit 9
cd $d
cp /verif/seeded/$id/demo.py .
r0=$(PYTHONPATH=$d/src timeout 300 /venv/bin/python demo.py >/dev/null 2>&1; echo $?)
git apply /verif/seeded/$id/patch.diff || { echo "apply failed"; cd /; git -C /repo worktree remove --force $d; exit 9; }
imp=$(PYTHONPATH=$d/src /venv/bin/python -c "import waitress, waitress.server, waitress.runner; print('ok')" 2>&1 | tail -1)
tests=$(PYTHONPATH=$d/src /venv/bin/python -m pytest -q -p no:cacheprovider --no-cov --timeout=900 tests 2>&1 | grep -E "passed|failed" | tail -1)
r1=$(PYTHONPATH=$d/src timeout 300 /venv/bin/python demo.py >/dev/null 2>&1; echo $?)
cd /; git -C /repo worktree remove --force $d
echo "$id import=$imp tests=[$tests] demo_without=$r0 demo_with=$r1"
