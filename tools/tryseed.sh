#!/bin/sh
# usage: tools/tryseed.sh <seed id> <props,comma>   -- apply seeded/<id>/patch.diff to a scratch copy and run checks on it
id="$1"; props="$2"
d=$(mktemp -d /tmp/wseed_XXXXXX)
cp -r /repo/src /repo/docs "$d"/
(cd "$d" && patch -p1 -s < /verif/seeded/$id/patch.diff) || { echo "patch failed"; rm -rf "$d"; exit 9; }
for p in $(echo "$props" | tr , ' '); do
  /verif/check $p --repo "$d" --no-evidence 2>&1 | grep -E "^VIOLATION|^UNDECIDED|^$p:|CHECKER" | cut -c1-260
done
rm -rf "$d"
