#!/usr/bin/env python3
"""usage: tools/benignmatrix.py [jobs] [ids...]
Apply each behaviour-preserving patch benign/bNN.diff to a scratch copy of /repo's tree and run every check that reads the
touched file.  Every check must still exit 0 (no VIOLATION, no UNDECIDED).  Results: benign/matrix.json."""
import concurrent.futures as cf, json, os, re, shutil, subprocess, sys, tempfile
ROOT = os.path.dirname(os.path.dirname(os.path.abspath(__file__)))
jobs = int(sys.argv[1]) if len(sys.argv) > 1 else 3
DIR = os.environ.get("BENIGN_DIR", "benign")
ids = sys.argv[2:] or sorted(f[:-5] for f in os.listdir(os.path.join(ROOT, DIR)) if f.endswith(".diff"))
READS = {   # which checks read which source file (functions under contract + inlined helpers)
    "parser.py": "C01 C02 C06 C07 C10", "receiver.py": "C01 C02 C06 C07 C10", "rfc7230.py": "C01 C06 C07 C10", "utilities.py": "C01 C02 C06 C07 C16",
    "channel.py": "C01 C03 C04 C05 C09 C11 C12 C13 C18 C19", "task.py": "C01 C03 C07 C08 C09 C14", "buffers.py": "C03 C04 C12 C17",
    "proxy_headers.py": "C15 C16", "server.py": "C13 C15 C18", "adjustments.py": "C20", "runner.py": "C20", "wasyncore.py": "C13 C18",
}


def run(bid):
    d = tempfile.mkdtemp(prefix="wbenign_")
    try:
        for sub in ("src", "docs"):
            shutil.copytree(os.path.join("/repo", sub), os.path.join(d, sub))
        path = os.path.join(ROOT, DIR, bid + ".diff")
        p = subprocess.run(["patch", "-p1", "-s", "--no-backup-if-mismatch", "-i", path], cwd=d, capture_output=True, text=True)
        if p.returncode != 0:
            return bid, {"error": "patch failed: " + (p.stdout + p.stderr)[-300:]}
        files = set(re.findall(r"^\+\+\+ b/src/waitress/(\S+)", open(path).read(), re.M))
        checks = sorted({c for f in files for c in READS.get(f, "").split()})
        out = {}
        for c in checks:
            r = subprocess.run([os.path.join(ROOT, "check"), c, "--repo", d, "--no-evidence"], capture_output=True, text=True)
            lines = r.stdout.splitlines()
            out[c] = {"exit": r.returncode, "alarms": [l[:300] for l in lines if l.startswith(("VIOLATION", "UNDECIDED", "CHECKER"))]}
            if r.returncode not in (0, 1, 2):
                out[c]["stderr_tail"] = r.stderr[-1500:]
        return bid, out
    finally:
        shutil.rmtree(d, ignore_errors=True)


mp = os.path.join(ROOT, DIR, "matrix.json")
matrix = json.load(open(mp)) if os.path.exists(mp) else {}
with cf.ThreadPoolExecutor(jobs) as ex:
    for bid, out in ex.map(run, ids):
        matrix[bid] = out
        bad = {c: v["exit"] for c, v in out.items() if isinstance(v, dict) and v.get("exit") != 0}
        print(bid, "clean on", [c for c in out if c not in bad], "ALARMS", bad or "-", out.get("error", ""), flush=True)
        json.dump(matrix, open(mp, "w"), indent=1, sort_keys=True)
