#!/bin/sh
# usage: tools/runall.sh [quick|thorough] [jobs]  -- run every check on /repo, print the summary line of each, exit 1 if any is not clean
tier="${1:-quick}"; jobs="${2:-4}"
cd "$(dirname "$0")/.."
mkdir -p .runall
ls props | sed -n 's/^\(C[0-9][0-9]\)\.py$/\1/p' | xargs -P "$jobs" -I{} sh -c './check {} --tier '"$tier"' > .runall/{}.out 2>&1; echo "{} exit=$?" >> .runall/{}.out'
rc=0
for f in .runall/C*.out; do
  grep -E "^C[0-9]+:|^VIOLATION|^UNDECIDED|^KNOWN-FINDING|CHECKER|exit=" "$f" | cut -c1-240
  grep -q "exit=0" "$f" || rc=1
done
rm -rf .runall
exit $rc
