#!/usr/bin/env python3
"""Regenerate MANIFEST.json from props/meta.py (single source of truth for claims)."""
import json, os, sys
sys.path.insert(0, os.path.dirname(os.path.dirname(os.path.abspath(__file__))))
from props.meta import META, NOT_APPLICABLE, ENGINES
ids = [json.loads(l)["id"] for l in open("/verif/properties.jsonl")]
checks = []
for pid in ids:
    if pid in META:
        m = dict(META[pid])
        ev = os.path.join("/verif/evidence", pid + ".json")
        if os.path.exists(ev):
            lvl = json.load(open(ev))["level"]
            if lvl != m["level"]:
                print("note: %s evidence level %s overrides declared %s" % (pid, lvl, m["level"]))
                m["level"] = lvl
        checks.append({
            "property_id": pid,
            "quick_cmd": "./check %s --tier quick" % pid,
            "thorough_cmd": "./check %s --tier thorough" % pid,
            "evidence_file": "evidence/%s.json" % pid,
            "replay_cmd_template": "python3 tools/replay.py {path}",
            "engine": m["engine"],
            "level_claimed": {"category": m["level"], "text": m["text"], "design_ref": m["design_ref"]},
            "level_note": m["note"],
            "technique": m["technique"],
        })
na = [{"property_id": p, "reason": NOT_APPLICABLE.get(p, "check not built yet (build in progress, DESIGN.md section 9 order)")} for p in ids if p not in META]
man = {
    "version": 1,
    "setup_cmd": "./tools/setup.sh",
    "hooks": {"guard": "WAITRESS_VERIF", "enable": "no source hooks: contracts are sidecars under /verif; run-time monitors are installed by monkeypatching from /verif when WAITRESS_VERIF=1; nothing in /repo is guarded",
              "baseline_off_cmd": "cd /repo && /venv/bin/python -m pytest -ra -q -p no:cacheprovider --timeout=900 --continue-on-collection-errors",
              "source_commits": [], "add_only": True},
    "engines": ENGINES,
    "checks": checks,
    "notes": "contract-based deductive verification of the real waitress source; see DESIGN.md. known_findings.json lists recorded defects and fix: commits.",
    "not_applicable": na,
}
json.dump(man, open("/verif/MANIFEST.json", "w"), indent=1)
print("checks:", [c["property_id"] for c in checks], "not_applicable:", len(na))
