#!/usr/bin/env python3
"""Every obligation generated in a shared world must be reported by at least one property's check.
Reads evidence/*.json (run all checks first); prints the obligations that every check left to "other properties"."""
import glob, json, os, sys
root = os.path.dirname(os.path.dirname(os.path.abspath(__file__)))
reported, skipped, unused_frames = set(), {}, set()
for f in sorted(glob.glob(os.path.join(root, "evidence", "C*.json"))):
    d = json.load(open(f)); c = d["coverage"]
    for o in c.get("obligation_list", []):
        reported.add(o["name"].split("/", 1)[1])
    for n in c.get("obligations_left_to_other_properties", []):
        skipped.setdefault(n, []).append(d["property_id"])
    for n in c.get("frame_obligations_without_a_caller_in_this_run", []):
        unused_frames.add(n)
# a frame (modifies) obligation of a contract that no caller applies in any run constrains nothing and is dropped on purpose
orphans = sorted(n for n in skipped if n not in reported and not ("/frame:" in n and n in unused_frames))
for n in orphans:
    print("ORPHAN", n, "(skipped by %s)" % ",".join(skipped[n]))
print(len(orphans), "orphan obligations;", len(reported), "reported")
sys.exit(1 if orphans else 0)
