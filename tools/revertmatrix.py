#!/usr/bin/env python3
"""usage: tools/revertmatrix.py [jobs]
For every `fixed` entry of known_findings.json: reverse-apply the fix commit to a scratch copy of /repo's tree and run the
property's check on it.  The check must report the violation again (exit 1).  Results: seeded/reverts.json."""
import concurrent.futures as cf, json, os, shutil, subprocess, sys, tempfile
ROOT = os.path.dirname(os.path.dirname(os.path.abspath(__file__)))
jobs = int(sys.argv[1]) if len(sys.argv) > 1 else 4
kf = [e for e in json.load(open(os.path.join(ROOT, "known_findings.json")))["findings"] if e["status"] == "fixed"]


def run(e):
    d = tempfile.mkdtemp(prefix="wrevert_")
    try:
        for sub in ("src", "docs"):
            shutil.copytree(os.path.join("/repo", sub), os.path.join(d, sub))
        manual = os.path.join(ROOT, "seeded", "reverts", e["id"] + ".diff")    # hand-made when a later fix touches the same lines
        if os.path.exists(manual):
            p = subprocess.run(["patch", "-p1", "-s", "--no-backup-if-mismatch", "-i", manual], cwd=d, capture_output=True, text=True)
        else:
            diff = subprocess.run(["git", "-C", "/repo", "show", e["commit"], "--", "src"], capture_output=True, text=True).stdout
            p = subprocess.run(["patch", "-R", "-p1", "-s", "--no-backup-if-mismatch"], input=diff, cwd=d, capture_output=True, text=True)
        if p.returncode != 0:
            return e, {"error": "reverse patch does not apply (later fix touches the same lines): " + (p.stdout + p.stderr)[-200:].strip()}
        r = subprocess.run([os.path.join(ROOT, "check"), e["property"], "--repo", d, "--no-evidence"], capture_output=True, text=True)
        lines = r.stdout.splitlines()
        obs = [lines[i + 1].strip().replace("obligation: ", "") for i, l in enumerate(lines) if l.startswith("VIOLATION") and i + 1 < len(lines)]
        return e, {"exit": r.returncode, "violations": obs, "same_obligation": e["obligation"] in obs,
                   "undecided": [l[11:160] for l in lines if l.startswith("UNDECIDED")]}
    finally:
        shutil.rmtree(d, ignore_errors=True)


out = {}
with cf.ThreadPoolExecutor(jobs) as ex:
    for e, res in ex.map(run, kf):
        out[e["id"]] = res
        print(e["id"], res.get("exit"), "same-obligation" if res.get("same_obligation") else "", res.get("error", ""), (res.get("violations") or [""])[0][:110], flush=True)
json.dump(out, open(os.path.join(ROOT, "seeded", "reverts.json"), "w"), indent=1, sort_keys=True)
