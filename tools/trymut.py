#!/usr/bin/env python3
"""Apply one textual mutation to a scratch copy of /repo (src, docs, tests only) and run checks on it.
usage: trymut.py <props,comma> <relpath> <old> <new> [--tier T]   (old/new: python string literals allowed via $'..')
The copy lives in a fresh mkdtemp dir and is removed afterwards."""
import os, shutil, subprocess, sys, tempfile
props, rel, old, new = sys.argv[1:5]
extra = sys.argv[5:]
d = tempfile.mkdtemp(prefix="wmut_")
try:
    for sub in ("src", "docs"):
        shutil.copytree(os.path.join("/repo", sub), os.path.join(d, sub), ignore=shutil.ignore_patterns("__pycache__", "*.egg-info"))
    p = os.path.join(d, rel)
    s = open(p).read()
    if old not in s:
        print("MUTATION TEXT NOT FOUND"); sys.exit(9)
    open(p, "w").write(s.replace(old, new, 1))
    for prop in props.split(","):
        r = subprocess.run(["/verif/check", prop, "--repo", d, "--no-evidence"] + extra, capture_output=True, text=True)
        lines = [l for l in r.stdout.splitlines() if l.startswith(("VIOLATION", "UNDECIDED", "  what", prop + ":", "CHECKER"))]
        print("\n".join(lines[-8:])); print("rc=%d" % r.returncode)
        if r.returncode == 3: print(r.stderr[-1500:])
finally:
    shutil.rmtree(d, ignore_errors=True)
