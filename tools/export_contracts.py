#!/usr/bin/env python3
"""(python3-vt) export the sidecar contracts of the plain state-machine classes as JSON for the run-time monitor:
usage: python3-vt tools/export_contracts.py OUT.json"""
import json, os, sys
sys.path.insert(0, os.path.dirname(os.path.dirname(os.path.abspath(__file__))))
from vlib import world

WORLDS = [(["adj", "buffers_abs", "receiver", "parser"], ("receiver.", "parser.HTTPRequestParser.")),
          (["buffers"], ("buffers.",))]
out = {}
for mods, prefixes in WORLDS:
    reg = world.build_registry(os.environ.get("VERIF_EXPORT_REPO", "/repo"), mods)
    for qual, con in reg.funcs.items():
        if not qual.startswith(prefixes) or qual.count(".") != 2 or "<" in qual:
            continue
        cls = ".".join(qual.split(".")[:-1])
        spec = reg.class_spec(cls)
        out[qual] = {"params": list(con.params), "requires": con.requires, "ensures": con.ensures, "ensures_exc": con.ensures_exc,
                     "raises": con.raises, "check_invariant": bool(con.check_invariant), "fresh_self": bool(con.fresh_self),
                     "invariants": (spec.invariants if spec is not None else []), "inline": bool(con.inline), "assume_invariant": bool(con.assume_invariant)}
# channel world: the monitor invariants and the facts that are only ASSUMED by the verifier (accounting, pending request), judged at the
# exits of the methods where the corresponding lock is free again
from contracts import channel as _ch
reg = world.build_registry(os.environ.get("VERIF_EXPORT_REPO", "/repo"), ["channel"])
always = list(_ch.OUT_INV) + list(_ch.OUT_ASSUMED)
reqs = list(_ch.REQ_INV) + list(_ch.REQ_ASSUMED)
for meth in ("received", "service", "handle_write", "handle_read", "handle_close", "write_soon", "send_continue", "_flush_some", "readable", "writable"):
    qual = "channel.HTTPChannel." + meth
    out[qual] = {"params": [], "requires": [], "ensures": [], "ensures_exc": [], "raises": [], "check_invariant": True, "fresh_self": False,
                 "invariants": always + (reqs if meth in ("received", "service", "handle_read") else []), "inline": False, "assume_invariant": True}
json.dump(out, open(sys.argv[1], "w"), indent=1)
print(len(out), "contracts exported")
