import sys; sys.path.insert(0,'/verif')
from collections import Counter
from vlib import world
from vlib.contract import verify_function
from vlib.pyvc import Engine
import vlib.pyvc as P, importlib
qual, role = sys.argv[1], sys.argv[2]
reg = world.build_registry('/repo', ['channel'])
eng = Engine(reg.repo, reg); eng.role = role
importlib.import_module('contracts.channel').attach(eng, reg, qual)
cnt = Counter()
orig = P.Engine.exec
def ex(self, node, fr):
    if fr.qual == qual: cnt[node.lineno] += 1
    return orig(self, node, fr)
P.Engine.exec = ex
ends = Counter()
origexp = P.Engine.explore
origbranch = P.Engine.branch
def br(self, cond):
    try:
        return origbranch(self, cond)
    except P.PathEnd as e:
        print("PATHEND in branch:", e.why, "cond=", str(cond)[:200]); 
        import z3
        from vlib import smt
        print("   pc feasible?", smt.feasible(self.state.pc, 3000), "len pc", len(self.state.pc))
        for c in self.state.pc[-12:]: print("      ", str(c)[:160].replace("\n"," "))
        raise
P.Engine.branch = br
n = verify_function(eng, reg.contract(qual), label=qual+"@"+role)
print("paths", n, "exits", eng.exit_paths)
for ln in sorted(cnt): print(ln, cnt[ln])
