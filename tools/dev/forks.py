import sys; sys.path.insert(0,'/verif')
from collections import Counter
from vlib import world
from vlib.contract import verify_function
from vlib.pyvc import Engine, OutOfSubset
import vlib.pyvc as P, importlib, traceback
mods, hooks, qual = sys.argv[1].split(","), sys.argv[2], sys.argv[3]
reg = world.build_registry('/repo', mods)
eng = Engine(reg.repo, reg, max_paths=int(sys.argv[4]) if len(sys.argv)>4 else 400)
if hooks != "-": importlib.import_module(hooks).attach(eng, reg, qual)
cnt = Counter()
orig = P.Engine.branch
def br(self, cond):
    n0 = len(self.alts)
    r = orig(self, cond)
    if len(self.alts) > n0:
        st = traceback.extract_stack(limit=14)
        key = " <- ".join("%s:%d" % (f.name, f.lineno) for f in reversed(st[:-1]) if f.name not in ("eval","exec","exec_block","br"))[:230]
        cnt[key] += 1
    return r
P.Engine.branch = br
try:
    n = verify_function(eng, reg.contract(qual))
    print("paths", n)
except OutOfSubset as e:
    print("OOS", e)
for k, v in cnt.most_common(14): print(v, k)
