import sys; sys.path.insert(0,'/verif')
from vlib.source import Repo
from vlib.contract import Registry, verify_function
from vlib.pyvc import Engine, OutOfSubset
from vlib import smt
import z3, time, importlib
from collections import Counter
mods=sys.argv[1].split(","); quals=sys.argv[2:]
reg=Registry(); reg.repo=Repo('/repo')
for m in mods: importlib.import_module("contracts."+m).install(reg)
eng=Engine(Repo('/repo'), reg)
for q in quals:
    t=time.time()
    try:
        n=verify_function(eng, reg.contract(q))
        print(q, "paths", n, "obligations", len(eng.obligations), round(time.time()-t,2), smt.STATS)
    except OutOfSubset as e:
        print("OUT OF SUBSET", q, e)
qs=[]
for ob in eng.obligations:
    if z3.is_true(ob.goal): ob.q=None; continue
    ob.q=smt.Query(ob.name, ob.pc+[z3.Not(ob.goal)], ["|%s|"%n for n in list(ob.vars)[:30]]); qs.append(ob.q)
t=time.time(); smt.decide_all(qs, timeout=20, prefer="cvc5"); print("solve wall", round(time.time()-t,2), "queries", len(qs), "cpu", round(sum(q.secs for q in qs),1))
res={}
for ob in eng.obligations:
    st = "trivial" if ob.q is None else ob.q.status
    res.setdefault(ob.name, []).append((st, ob))
bad=0
for name, lst in res.items():
    sts=Counter(s for s,_ in lst)
    if set(sts)<= {"unsat","trivial"}: continue
    bad+=1
    print(name, dict(sts), "|", lst[0][1].clause)
    for s,ob in lst:
        if s=="sat": print("    model:", {k:v for k,v in ob.q.model.items() if not k.startswith('|loop') }); break
        if s not in ("unsat","trivial","sat"): print("    ", s, ob.q.backend); break
print("obligation names:", len(res), "not discharged:", bad)
