import sys; sys.path.insert(0,'/verif')
from vlib.source import Repo
from vlib.contract import Registry, verify_function
from vlib.pyvc import Engine, OutOfSubset
from vlib import smt
import z3, time
from contracts import buffers_abs, receiver
reg=Registry(); buffers_abs.install(reg); receiver.install(reg)
eng=Engine(Repo('/repo'), reg)
orig=smt.feasible
stats={'n':0,'t':0.0,'max':0}
def feas(a, timeout_ms=800):
    t=time.time(); r=orig(a,timeout_ms); d=time.time()-t
    stats['n']+=1; stats['t']+=d; stats['max']=max(stats['max'],d)
    if d>0.7: print("slow feasibility", round(d,1), len(a), flush=True)
    return r
smt.feasible=feas
t=time.time()
try:
    n=verify_function(eng, reg.contract(sys.argv[1]))
    print("paths", n, "obligations", len(eng.obligations), round(time.time()-t,2), stats)
except OutOfSubset as e:
    print("OUT OF SUBSET", e, stats)
