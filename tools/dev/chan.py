import sys; sys.path.insert(0,'/verif')
from vlib.report import Check
from vlib import world
from props import chanworld
ck = Check("C12", ["--no-evidence"] + sys.argv[2:])
jobs = [j for j in chanworld.JOBS if sys.argv[1] in j[0] or sys.argv[1]=="all"]
res = chanworld.run(ck, jobs)
for r in res:
    print("==", r["label"], "paths", r["paths"], r.get("error"), r.get("total_s"))
    for o in r["obligations"]:
        if o["status"]!="discharged":
            print("   ", o["status"], o["name"].split("/",1)[1], "|", o["clause"][:100])
            m=o.get("model") or {}
            print("       ", {k:v for k,v in m.items() if any(t in k for t in ("total","connected","do_close","sent","ret_","num_sent","result","raises","loop_iter","acquired","watermark","pulled","send_bytes","will_close","close_when"))})
    print("   discharged:", sum(1 for o in r["obligations"] if o["status"]=="discharged"), "/", len(r["obligations"]))
import os
if os.environ.get("NAMES"):
    for r in res:
        for o in r["obligations"]: print("  ", o["status"], o["name"], o["paths"])
for r in res:
    if r.get("unreached"): print("UNREACHED", r["label"], r["unreached"])
