import sys; sys.path.insert(0,'/verif')
from vlib.source import Repo
from vlib.contract import Registry, verify_function, FuncContract, Bytes
from vlib.pyvc import Engine, OutOfSubset, RaiseSig
import vlib.pyvc as P
from contracts import adj, buffers_abs, receiver, parser
reg=Registry(); reg.repo=Repo('/repo')
for m in (adj,buffers_abs,receiver,parser): m.install(reg)
eng=Engine(reg.repo, reg)
orig=P.Engine.s_Raise
def s_Raise(self,node,fr):
    print("RAISE at", fr.qual, node.lineno, [str(c)[:80] for c in self.state.pc[-3:]])
    return orig(self,node,fr)
P.Engine.s_Raise=s_Raise
n=verify_function(eng, reg.contract("parser.HTTPRequestParser.received"))
