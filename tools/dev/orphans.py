import sys; sys.path.insert(0,'/verif')
from vlib.report import Check
from vlib import world
from props import chanworld, chanprops
ck = Check("C12", ["--no-evidence"])
res = chanworld.run(ck)
names=[]
for r in res:
    for o in r["obligations"]:
        names.append(o["name"])
sel = dict(chanprops.SELECT)
for n in sorted(set(names)):
    hit=[p for p,pats in sel.items() if any(x in n for x in pats)]
    if not hit: print("ORPHAN", n)
