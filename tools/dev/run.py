import sys, os; sys.path.insert(0,'/verif')
from vlib.report import Check
from vlib import world
mods=sys.argv[1].split(","); hooks=sys.argv[2] if sys.argv[2]!="-" else None
jobs=[]
for a in sys.argv[3:]:
    jobs.append(tuple(a.split("@")) if "@" in a else a)
ck = Check("C08", ["--no-evidence"])
res = world.run_functions(ck, mods, jobs, timeout=20, hooks_mod=hooks)
for r in res:
    print("==", r["label"], "paths", r["paths"], (r.get("error") or "")[:1500], r.get("total_s"), "UNREACHED", r.get("unreached"))
    for o in r["obligations"]:
        if o["status"]!="discharged":
            print("   ", o["status"], o["name"].split("/",1)[1], "|", o["clause"][:110])
            m=o.get("model") or {}
            if os.environ.get("MODEL"): print("       ", {k:v for k,v in m.items() if any(t in k for t in os.environ["MODEL"].split(","))})
    print("   discharged:", sum(1 for o in r["obligations"] if o["status"]=="discharged"), "/", len(r["obligations"]))
