import sys; sys.path.insert(0,'/verif')
from vlib import world
from vlib.contract import verify_function
from vlib.pyvc import Engine, OutOfSubset
import vlib.pyvc as P, importlib, traceback
mods, hooks, qual = sys.argv[1].split(","), sys.argv[2], sys.argv[3]
reg = world.build_registry('/repo', mods)
eng = Engine(reg.repo, reg)
if hooks != "-": importlib.import_module(hooks).attach(eng, reg, qual)
from vlib import smt
oa = P.Engine.assume
state = {"dead": False}
def assume(self, cond):
    oa(self, cond)
    if not state["dead"] and not smt.feasible(self.state.pc, 3000):
        state["dead"] = True
        print("INFEASIBLE AFTER ASSUMING:", str(cond)[:600])
        import z3
        sol = z3.Solver(); sol.set("timeout", 20000)
        ps = []
        for i, c in enumerate(self.state.pc):
            p = z3.Bool("core%d" % i); ps.append(p); sol.add(z3.Implies(p, c))
        r = sol.check(*ps)
        print("  z3 says", r)
        if r == z3.unsat:
            core = sol.unsat_core()
            for p in core:
                i = int(str(p)[4:]); print("   CORE:", str(self.state.pc[i])[:300].replace("\n", " "))
        st = traceback.extract_stack(limit=9)
        print("   at", " <- ".join("%s:%d" % (f.name, f.lineno) for f in reversed(st[:-1])))
P.Engine.assume = assume
orig = P.Engine.explore
def explore(self, run_once):
    def wrapped():
        state["dead"] = False
        try:
            run_once()
        except P.PathEnd as e:
            st = traceback.extract_tb(sys.exc_info()[2])
            print("PATHEND:", e.why, " @ ", " <- ".join("%s:%d" % (f.name, f.lineno) for f in reversed(st[-6:])))
            raise
    return orig(self, wrapped)
P.Engine.explore = explore
try:
    print("paths", verify_function(eng, reg.contract(qual)))
except OutOfSubset as e:
    print("OOS", e)
