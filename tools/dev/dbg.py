import sys; sys.path.insert(0,'/verif')
from vlib import world
from vlib.contract import verify_function
from vlib.pyvc import Engine, OutOfSubset
import vlib.pyvc as P, importlib, traceback
mods, hooks, qual = sys.argv[1].split(","), sys.argv[2], sys.argv[3]
reg = world.build_registry('/repo', mods)
eng = Engine(reg.repo, reg)
if hooks != "-": importlib.import_module(hooks).attach(eng, reg, qual)
from vlib import smt
oa = P.Engine.assume
state = {"dead": False}
def assume(self, cond):
    oa(self, cond)
    if not state["dead"] and not smt.feasible(self.state.pc, 3000):
        state["dead"] = True
        print("INFEASIBLE AFTER ASSUMING:", str(cond)[:600])
        st = traceback.extract_stack(limit=9)
        print("   at", " <- ".join("%s:%d" % (f.name, f.lineno) for f in reversed(st[:-1])))
P.Engine.assume = assume
orig = P.Engine.explore
def explore(self, run_once):
    def wrapped():
        try:
            run_once()
        except P.PathEnd as e:
            st = traceback.extract_tb(sys.exc_info()[2])
            print("PATHEND:", e.why, " @ ", " <- ".join("%s:%d" % (f.name, f.lineno) for f in reversed(st[-6:])))
            raise
    return orig(self, wrapped)
P.Engine.explore = explore
try:
    print("paths", verify_function(eng, reg.contract(qual)))
except OutOfSubset as e:
    print("OOS", e)
