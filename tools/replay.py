#!/usr/bin/env python3
"""usage: tools/replay.py <replay file> [--repo DIR]
Re-run the failing input recorded in a replay file against the real code of DIR (default /repo) under the suite's interpreter.
exit 1: the failure reproduces; exit 0: it does not (any more); exit 2: the file carries no replayable input (discipline /
loop / frame obligations: it names the failed obligation and carries the solver's output)."""
import ast, json, os, subprocess, sys
ROOT = os.path.dirname(os.path.dirname(os.path.abspath(__file__)))
path = sys.argv[1]
repo = sys.argv[sys.argv.index("--repo") + 1] if "--repo" in sys.argv else "/repo"
d = json.load(open(path))


def native(module, routine, payload):
    env = dict(os.environ, PYTHONPATH=os.path.join(os.path.abspath(repo), "src"), WAITRESS_VERIF="1")
    p = subprocess.run(["/venv/bin/python", os.path.join(ROOT, "replay", "driver.py"), module, routine], input=json.dumps(payload),
                       capture_output=True, text=True, env=env, cwd="/", timeout=600)
    if p.returncode != 0:
        print(p.stderr[-1500:]); sys.exit(3)
    return json.loads(p.stdout.strip().splitlines()[-1])


print("property   :", d.get("property")); print("obligation :", d.get("obligation")); print("what       :", (d.get("what") or "")[:400])
nat = d.get("native") or {}
if isinstance(nat, dict) and nat.get("payload"):            # solver counter-model rebuilt as real objects
    r = native("model", "function_replay" if nat["payload"].get("func") else "model_replay", nat["payload"])
    print("input      :", json.dumps(r.get("input"))[:1500]); print("observed   :", r.get("observed"), r.get("why", ""))
    print("REPRODUCED" if r.get("reproduced") else "not reproduced on this tree"); sys.exit(1 if r.get("reproduced") else 0)
if d.get("label") == "bounded" and d.get("routine"):       # witness of a bounded stand-in
    r = native(d["property"], d["routine"], d["payload"])
    print(json.dumps({k: v for k, v in r.items() if k != "payload"})[:2500])
    print("REPRODUCED" if r.get("reproduced") else "not reproduced on this tree"); sys.exit(1 if r.get("reproduced") else 0)
if d.get("witness") and isinstance(nat, dict) and nat.get("routine"):     # shortest witness of a language difference
    tok = ast.literal_eval(d["witness"])
    r = native("C10", nat["routine"], {"tokens": [tok.decode("latin-1")]})
    refused = r["refused"][0]
    print("witness    :", d["witness"], "| real code refuses:", refused, "| grammar accepts:", d.get("grammar_accepts"))
    differs = refused == bool(d.get("grammar_accepts"))       # refused although in the grammar, or accepted although not
    print("REPRODUCED (code and grammar disagree on the witness)" if differs else "not reproduced on this tree"); sys.exit(1 if differs else 0)
print("no replayable input in this file; solver model:", json.dumps(d.get("model"))[:1500])
print("solver output:", (d.get("solver_output") or "")[:600])
sys.exit(2)
