#!/bin/sh
# offline self-test of the tool chain the checks rely on; installs nothing
set -e
cd "$(dirname "$0")/.."
python3-vt -c "import z3, ast, re; from re import _parser; print('python3-vt ok, z3', z3.get_version_string())"
/usr/bin/cvc5 --version | head -1
/venv/bin/python -c "import sys; print('native interpreter', sys.version.split()[0])"
mkdir -p evidence/replay
