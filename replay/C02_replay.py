"""C02 bounded stand-in: the real HTTPChannel.received (real parser, receivers, buffers) is fed a corpus of byte
streams under enumerated segmentations; what the connection yields must be identical for every segmentation.
Bounded: the corpus is finite and only cut sets up to a stated size are enumerated."""
import itertools
import os
import random
import sys

sys.path.insert(0, os.path.dirname(os.path.abspath(__file__)))
from common import Adj
from waitress.channel import HTTPChannel


class Sock:
    def __init__(self):
        self.sent = b""

    def getsockopt(self, level, opt):
        return 65536

    def setblocking(self, flag):
        pass

    def fileno(self):
        return 99

    def getpeername(self):
        return ("127.0.0.1", 12345)

    def send(self, data):
        self.sent += bytes(data)
        return len(data)

    def close(self):
        pass


class Server:
    def __init__(self):
        self.tasks = 0
        self.active_channels = {}

    def add_task(self, channel):
        self.tasks += 1


def record(req):
    body = None
    if req.body_rcv is not None:
        f = req.get_body_stream()
        pos = f.tell()
        body = f.read()
        f.seek(pos)
    err = None if req.error is None else [type(req.error).__name__, req.error.code, str(req.error.body)]
    return {"command": getattr(req, "command", None), "uri": getattr(req, "request_uri", None), "path": getattr(req, "path", None),
            "query": getattr(req, "query", None), "version": req.version, "headers": sorted(req.headers.items()),
            "body": None if body is None else body.hex(), "error": err, "close": bool(req.connection_close),
            "expect_continue": bool(req.expect_continue), "chunked": bool(req.chunked), "content_length": req.content_length}


def run(stream, cuts, adj_kw):
    adj = Adj(**adj_kw)
    sock, srv = Sock(), Server()
    ch = HTTPChannel(srv, sock, ("127.0.0.1", 12345), adj, map={})
    pieces, prev = [], 0
    for c in list(cuts) + [len(stream)]:
        pieces.append(stream[prev:c])
        prev = c
    for p in pieces:
        ch.received(p)
        # the interim response is flushed by the I/O loop between reads
        while ch.total_outbufs_len:
            if not ch._flush_some():
                break
    pending = None
    if ch.request is not None:
        r = ch.request
        rcv = r.body_rcv
        collected = None
        if rcv is not None:
            collected = rcv.buf.get(-1).hex() if len(rcv.buf) else ""
        pending = {"headers_finished": r.headers_finished, "carry": r.header_plus.hex() if not r.headers_finished else None,
                   "header_bytes": r.header_bytes_received if not r.headers_finished else None, "body_bytes": r.body_bytes_received,
                   "collected": collected, "sent_continue": ch.sent_continue}
    recs = [record(r) for r in ch.requests]
    # what the connection yields ends with the first request that closes it: ErrorTask always sets close_on_finish, a request with
    # connection_close does too, and HTTPChannel.service then drops everything queued behind it (C11); bytes after that point are never acted on
    for i, r in enumerate(recs):
        if r["error"] is not None:
            r["body"] = None        # an error request never reaches the application; ErrorTask does not read the partial body
        if r["error"] is not None or r["close"]:
            recs = recs[:i + 1]
            pending = None
            break
    return {"requests": recs, "closed_after": bool(recs) and (recs[-1]["error"] is not None or recs[-1]["close"]),
            "tasks": srv.tasks, "sent": sock.sent.hex(), "pending": pending}


def hdr(*lines):
    return b"".join(l + b"\r\n" for l in lines) + b"\r\n"


def corpus():
    c = []
    get = hdr(b"GET /a?x=1 HTTP/1.1", b"Host: h")
    c.append(("two pipelined GETs", get + hdr(b"GET /b HTTP/1.0"), {}))
    c.append(("leading blank lines then GET", b"\r\n\r\n" + get + b"\r\n" + get, {}))
    c.append(("fixed body then GET", hdr(b"POST /p HTTP/1.1", b"Content-Length: 5") + b"hello" + get, {}))
    c.append(("chunked with extension and two chunks, then GET",
              hdr(b"POST /c HTTP/1.1", b"Transfer-Encoding: chunked") + b"5;x=y\r\nhello\r\n3\r\nabc\r\n0\r\n\r\n" + get, {}))
    c.append(("chunked with trailer, then GET",
              hdr(b"POST /c HTTP/1.1", b"Transfer-Encoding: chunked") + b"1\r\nZ\r\n0\r\nX-T: v\r\nY: w\r\n\r\n" + get, {}))
    c.append(("chunked bad terminator", hdr(b"POST /c HTTP/1.1", b"Transfer-Encoding: chunked") + b"2\r\nabXX1\r\nq\r\n0\r\n\r\n" + get, {}))
    c.append(("chunked bad size", hdr(b"POST /c HTTP/1.1", b"Transfer-Encoding: chunked") + b"zz\r\nab\r\n0\r\n\r\n" + get, {}))
    c.append(("chunked bad trailer", hdr(b"POST /c HTTP/1.1", b"Transfer-Encoding: chunked") + b"0\r\nbad trailer\r\n\r\n" + get, {}))
    c.append(("expect continue", hdr(b"PUT /e HTTP/1.1", b"Content-Length: 3", b"Expect: 100-continue") + b"abc" + get, {}))
    c.append(("expect continue behind a queued request", get + hdr(b"PUT /e HTTP/1.1", b"Content-Length: 3", b"Expect: 100-continue") + b"abc", {}))
    c.append(("header too large", hdr(b"GET /" + b"a" * 40 + b" HTTP/1.1", b"Host: h") + get, {"max_request_header_size": 30}))
    c.append(("header exactly at the limit", hdr(b"GET /abcdef HTTP/1.1", b"Host: h") + get, {"max_request_header_size": len(hdr(b"GET /abcdef HTTP/1.1", b"Host: h"))}))
    c.append(("fixed body too large", hdr(b"POST /p HTTP/1.1", b"Content-Length: 50") + b"x" * 50 + get, {"max_request_body_size": 10}))
    c.append(("chunked body too large", hdr(b"POST /c HTTP/1.1", b"Transfer-Encoding: chunked") + b"8\r\n12345678\r\n8\r\n12345678\r\n0\r\n\r\n" + get,
              {"max_request_body_size": 10}))
    c.append(("malformed header line", hdr(b"GET / HTTP/1.1", b"Bad Header: x") + get, {}))
    c.append(("bare LF in header", b"GET / HTTP/1.1\r\nHost: h\nX: y\r\n\r\n" + get, {}))
    c.append(("bad content length", hdr(b"POST / HTTP/1.1", b"Content-Length: +5") + b"hello", {}))
    c.append(("unknown transfer coding", hdr(b"POST / HTTP/1.1", b"Transfer-Encoding: gzip") + b"hello", {}))
    c.append(("unfinished head", b"GET /unfinished HTTP/1.1\r\nHost: h\r\n", {}))
    c.append(("unfinished chunk", hdr(b"POST /c HTTP/1.1", b"Transfer-Encoding: chunked") + b"a\r\n12345", {}))
    c.append(("only CRs and LFs", b"\r\n\r\r\n\n\r\n\r\n\r\n", {}))
    # recorded finding KF-C02-1: framing error and body limit in one message
    c.append(("chunk framing error behind a small body limit",
              hdr(b"POST /c HTTP/1.1", b"Transfer-Encoding: chunked") + b"0x3\r\na;\r0\r\n\r\n0\r\n\r\n" + get, {"max_request_body_size": 6}))
    return c


def random_stream(rnd):
    """a pipelined stream of 1..3 generated requests (valid and malformed mixed), with the adjustments to run it under"""
    def chunked_body():
        out = b""
        for _ in range(rnd.randint(0, 3)):
            n = rnd.randint(1, 12)
            ext = rnd.choice([b"", b"", b";a=b", b';q="x y"', b";bad ext"])
            size = (b"%x" % n) if rnd.random() < 0.9 else rnd.choice([b"0x3", b"g", b" 5", b"5 "])
            data = bytes(rnd.choice(b"abc\r\n0;") for _ in range(n))
            term = b"\r\n" if rnd.random() < 0.93 else rnd.choice([b"\n", b"XX", b"\r"])
            out += size + ext + b"\r\n" + data + term
        trailer = rnd.choice([b"", b"", b"X-T: v\r\n", b"A: 1\r\nB: 2\r\n", b"bad trailer\r\n"])
        return out + b"0\r\n" + trailer + b"\r\n"
    reqs, adj_kw = [], {}
    for _ in range(rnd.randint(1, 3)):
        kind = rnd.choice(["get", "get", "fixed", "chunked", "chunked", "expect", "blank", "bad"])
        if kind == "get":
            reqs.append(hdr(b"GET /p%d?q HTTP/1.%d" % (rnd.randint(0, 9), rnd.randint(0, 1)), b"Host: h"))
        elif kind == "fixed":
            n = rnd.randint(0, 15)
            reqs.append(hdr(b"POST /f HTTP/1.1", b"Content-Length: %d" % n) + b"x" * n)
        elif kind == "chunked":
            reqs.append(hdr(b"POST /c HTTP/1.1", b"Transfer-Encoding: chunked") + chunked_body())
        elif kind == "expect":
            reqs.append(hdr(b"PUT /e HTTP/1.1", b"Content-Length: 2", b"Expect: 100-continue") + b"ab")
        elif kind == "blank":
            reqs.append(b"\r\n" * rnd.randint(1, 3))
        else:
            reqs.append(rnd.choice([hdr(b"GET / HTTP/1.1", b"Bad Header: x"), hdr(b"GET  / HTTP/1.1"), hdr(b"POST / HTTP/1.1", b"Content-Length: x"),
                                    hdr(b"POST / HTTP/1.1", b"Transfer-Encoding: gzip") + b"zz", b"GET / HTTP/1.1\r\nHost: h\n\r\n"]))
    if rnd.random() < 0.25:
        adj_kw["max_request_header_size"] = rnd.randint(20, 60)
    if rnd.random() < 0.25:
        adj_kw["max_request_body_size"] = rnd.randint(3, 20)
    return b"".join(reqs), adj_kw


def segment(payload):
    """payload: max_cuts (exhaustive up to this many cut points), random_k (number of random cut sets per stream), seed"""
    max_cuts = payload.get("max_cuts", 1)
    random_k = payload.get("random_k", 0)
    rnd = random.Random(payload.get("seed", 0))
    failures, total, streams = [], 0, []
    streams_in = list(corpus())
    for i in range(payload.get("random_streams", 0)):
        st, kw = random_stream(rnd)
        if len(st) >= 2:
            streams_in.append(("generated #%d" % i, st, kw))
    for name, stream, adj_kw in streams_in:
        if name.startswith("generated"):
            max_cuts_here, random_here = min(max_cuts, 1), max(random_k // 4, 10)
        else:
            max_cuts_here, random_here = max_cuts, random_k
        n = len(stream)
        whole = run(stream, [], adj_kw)
        schedules = [tuple(range(1, n))]
        for k in range(1, max_cuts_here + 1):
            schedules.extend(itertools.combinations(range(1, n), k))
        for _ in range(random_here):
            schedules.append(tuple(sorted(rnd.sample(range(1, n), rnd.randint(1, min(n - 1, 12))))))
        bad = 0
        for cuts in schedules:
            total += 1
            got = run(stream, cuts, adj_kw)
            if got != whole:
                bad += 1
                if bad <= 2:
                    diff = [k for k in whole if whole[k] != got[k]]
                    failures.append({"stream_name": name, "stream": stream.hex(), "cuts": list(cuts) if len(cuts) < 20 else "every byte", "adj": adj_kw,
                                     "differs_in": diff, "whole": {k: whole[k] for k in diff}, "split": {k: got[k] for k in diff}})
        streams.append({"name": name, "bytes": n, "schedules": len(schedules), "requests_whole": len(whole["requests"]), "deviating": bad})
    return {"total": total, "streams": streams, "failures": failures}


def one(payload):
    stream = bytes.fromhex(payload["stream"])
    cuts = payload["cuts"] if isinstance(payload["cuts"], list) else list(range(1, len(stream)))
    whole = run(stream, [], payload.get("adj", {}))
    got = run(stream, cuts, payload.get("adj", {}))
    return {"reproduced": whole != got, "whole": whole, "split": got}
