"""Native replay driver: runs under the suite's interpreter (/venv/bin/python) with
PYTHONPATH=<repo>/src so the REAL waitress code of the tree under check is exercised.
usage: driver.py <Cnn> <routine>   (JSON payload on stdin, JSON result on the last stdout line)"""
import importlib.util
import json
import os
import sys

def main():
    prop, routine = sys.argv[1], sys.argv[2]
    here = os.path.dirname(os.path.abspath(__file__))
    spec = importlib.util.spec_from_file_location(prop + "_replay", os.path.join(here, prop + "_replay.py"))
    mod = importlib.util.module_from_spec(spec)
    spec.loader.exec_module(mod)
    payload = json.loads(sys.stdin.read() or "{}")
    import logging
    logging.disable(logging.CRITICAL)
    out = getattr(mod, routine)(payload)
    sys.stdout.write("\n" + json.dumps(out) + "\n")

if __name__ == "__main__":
    main()
