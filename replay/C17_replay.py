"""C17 bounded stand-in: validates the assumed file model / FIFO contracts against the real classes
(real BytesIO and real TemporaryFile) on enumerated operation histories."""
import itertools, os, sys, random
sys.path.insert(0, os.path.dirname(os.path.abspath(__file__)))
from waitress import buffers
from waitress.buffers import OverflowableBuffer


def run_history(overflow, ops):
    b = OverflowableBuffer(overflow)
    model = bytearray()
    fill = 0
    for op, n in ops:
        if op == "append":
            data = bytes((fill + i) % 251 for i in range(n)); fill += n
            b.append(data); model += data
        elif op == "peek":
            r = b.get(n)
            want = len(model) if n < 0 else min(n, len(model))
            if not (bytes(model).startswith(r) and len(r) >= want):
                return "peek(%d) returned %d bytes, not a long-enough prefix" % (n, len(r))
        elif op == "consume":
            r = b.get(n, True)
            if not bytes(model).startswith(r):
                return "consume(%d) not a prefix" % n
            want = len(model) if n < 0 else min(n, len(model))
            if len(r) != want:
                return "consume(%d) returned %d bytes, expected %d" % (n, len(r), want)
            del model[:len(r)]
        elif op == "skip":
            if n > len(model):
                try:
                    b.skip(n, True)
                    return "skip(%d) beyond length did not raise" % n
                except ValueError:
                    pass
            else:
                b.skip(n, True); del model[:n]
        elif op == "file":
            f = b.getfile(); pos = f.tell(); data = f.read(); f.seek(pos)
            if data != bytes(model):
                return "file view differs"
        if len(b) != len(model):
            return "len %d != %d after %s" % (len(b), len(model), (op, n))
    if b.get(-1) != bytes(model):
        return "final content differs"
    return None


def histories(payload):
    k = payload["k"]
    limit = buffers.STRBUF_LIMIT
    failures = []
    total = 0
    for overflow in payload["overflows"]:
        sizes = sorted({0, 1, limit - 1, limit, limit + 1, max(overflow - 1, 0), overflow, overflow + 1})
        opset = [("append", s) for s in sizes] + [("peek", -1), ("peek", 1), ("consume", 1), ("consume", limit), ("consume", -1), ("skip", 1), ("skip", limit), ("file", 0)]
        for L in range(1, k + 1):
            for ops in itertools.product(opset, repeat=L):
                total += 1
                r = run_history(overflow, ops)
                if r and len(failures) < 5:
                    failures.append({"overflow": overflow, "ops": ops, "problem": r})
    rnd = random.Random(payload.get("seed", 0))
    for _ in range(payload.get("random", 0)):
        overflow = rnd.choice([0, 1, 100, limit, limit + 7, 3 * limit])
        ops = []
        for _ in range(rnd.randint(5, 25)):
            op = rnd.choice(["append", "append", "peek", "consume", "skip", "file"])
            n = rnd.choice([-1, 0, 1, 2, 100, limit - 1, limit, limit + 1, overflow, overflow + 1])
            if op in ("append", "skip"):
                n = max(n, 0)
            ops.append((op, n))
        total += 1
        r = run_history(overflow, ops)
        if r and len(failures) < 5:
            failures.append({"overflow": overflow, "ops": ops, "problem": r})
    return {"total": total, "failures": failures}
