"""C16 bounded stand-in: the real middleware against a reference written from the property statement
(client address / host / scheme from exactly the trusted_proxy_count-th hop from the right, the leftmost if fewer;
hostile values never produce an unhandled exception)."""
import itertools, os, sys
sys.path.insert(0, os.path.dirname(os.path.abspath(__file__)))
from waitress.proxy_headers import proxy_headers_middleware

HOSTILE = ['', ' ', ':80', '[', ']', '"', '""', '" "', '"a', 'a"', ',', ',,', ';', '=', 'for=', 'for=:80', 'for=" "', 'host=', 'host=""', 'host=:80',
           'proto=ftp', 'for=a;for=b', 'for = a', 'For=[::1]:80', 'for="[::1]"', 'a=b', 'for', '\x00', '\xff', '[::1', '::1]', 'for="\\""', '1.2.3.4:', ':']


def run(environ, **kw):
    seen = {}
    def app(env, sr):
        seen.update(env)
        sr("200 OK", [])
        return [b"ok"]
    status = {}
    def sr(st, hd, exc=None):
        status["s"] = st
    mw = proxy_headers_middleware(app, **kw)
    body = b"".join(mw(dict(environ), sr))
    return status.get("s"), seen


def hops_check(payload):
    base = {"REMOTE_ADDR": "10.0.0.9", "REMOTE_HOST": "10.0.0.9", "REMOTE_PORT": "1234", "SERVER_NAME": "srv", "SERVER_PORT": "80", "wsgi.url_scheme": "http"}
    failures, total = [], 0
    names = ["h%d" % i for i in range(6)]
    for n in range(1, payload["max_hops"] + 1):
        for c in range(1, payload["max_count"] + 1):
            hops = ["192.0.2.%d" % (i + 1) for i in range(n)]
            expect = hops[max(0, n - c)]
            # X-Forwarded-For
            total += 1
            st, env = run(dict(base, HTTP_X_FORWARDED_FOR=", ".join(hops)), trusted_proxy="*", trusted_proxy_count=c, trusted_proxy_headers={"x-forwarded-for"})
            if st != "200 OK" or env.get("REMOTE_ADDR") != expect:
                failures.append({"kind": "x-forwarded-for", "hops": hops, "count": c, "expected": expect, "got": env.get("REMOTE_ADDR"), "status": st})
            if st == "200 OK" and env.get("HTTP_X_FORWARDED_FOR", "").count(",") + 1 > min(n, c):
                failures.append({"kind": "x-forwarded-for rewrite leaks untrusted hops", "hops": hops, "count": c, "got": env.get("HTTP_X_FORWARDED_FOR")})
            # Forwarded: for / host / proto, with an untrusted left hop carrying values the trusted ones omit
            total += 1
            elems = ["for=%s;host=%s.example;proto=%s" % (h, names[i], "https" if i % 2 else "http") for i, h in enumerate(hops)]
            st, env = run(dict(base, HTTP_FORWARDED=", ".join(elems)), trusted_proxy="*", trusted_proxy_count=c, trusted_proxy_headers={"forwarded"})
            k = max(0, n - c)
            if st != "200 OK" or env.get("REMOTE_ADDR") != expect or env.get("SERVER_NAME") != names[k] + ".example" or env.get("wsgi.url_scheme") != ("https" if k % 2 else "http"):
                failures.append({"kind": "forwarded", "hops": elems, "count": c, "expected": [expect, names[k]], "got": [env.get("REMOTE_ADDR"), env.get("SERVER_NAME"), env.get("wsgi.url_scheme")], "status": st})
            if n > c:
                total += 1
                elems2 = ["for=evil;host=evil.example;proto=https"] * (n - c) + ["for=%s" % h for h in hops[n - c:]]
                st, env = run(dict(base, HTTP_FORWARDED=", ".join(elems2)), trusted_proxy="*", trusted_proxy_count=c, trusted_proxy_headers={"forwarded"})
                if st == "200 OK" and (env.get("SERVER_NAME") != "srv" or env.get("wsgi.url_scheme") != "http" or env.get("REMOTE_ADDR") != hops[n - c]):
                    failures.append({"kind": "forwarded: untrusted hop reaches the application", "elements": elems2, "count": c,
                                     "got": [env.get("REMOTE_ADDR"), env.get("SERVER_NAME"), env.get("wsgi.url_scheme")]})
    return {"total": total, "failures": failures[:5]}


def hostile_check(payload):
    base = {"REMOTE_ADDR": "10.0.0.9", "REMOTE_HOST": "10.0.0.9", "REMOTE_PORT": "1234", "SERVER_NAME": "srv", "SERVER_PORT": "80", "wsgi.url_scheme": "http"}
    keys = {"x-forwarded-for": "HTTP_X_FORWARDED_FOR", "x-forwarded-host": "HTTP_X_FORWARDED_HOST", "x-forwarded-proto": "HTTP_X_FORWARDED_PROTO",
            "x-forwarded-port": "HTTP_X_FORWARDED_PORT", "x-forwarded-by": "HTTP_X_FORWARDED_BY", "forwarded": "HTTP_FORWARDED"}
    failures, total = [], 0
    for kind, key in keys.items():
        for v in HOSTILE:
            for c in (1, 2):
                total += 1
                try:
                    st, env = run(dict(base, **{key: v}), trusted_proxy="*", trusted_proxy_count=c, trusted_proxy_headers={kind})
                    if st not in ("200 OK", "400 Bad Request"):
                        failures.append({"kind": kind, "value": v, "status": st})
                except Exception as e:
                    failures.append({"kind": kind, "value": v, "count": c, "exception": type(e).__name__ + ": " + str(e)[:100]})
    return {"total": total, "failures": failures[:5]}


def undquote_one(p):
    from waitress.utilities import undquote
    try:
        r = undquote(p["value"])
        return {"accepted": True, "result": r}
    except ValueError as e:
        return {"accepted": False, "error": str(e)}


# values the property says the server cannot interpret: each must give 400 (never 200, never an exception)
UNINTERPRETABLE = [
    ("forwarded", "for=1.2.3.4;proto", "a pair without '='"),
    ("forwarded", "for= 1.2.3.4", "padded value"),
    ("forwarded", "for=1.2.3.4 ;proto=https", "padded value before ';'"),
    ("forwarded", "for =1.2.3.4", "padded token"),
    ("forwarded", "host= example.com", "padded value"),
    ("forwarded", 'for="1.2.3.4', "bad quoting (no closing quote)"),
    ("forwarded", 'for=1.2.3.4"', "bad quoting (dangling quote)"),
    ("forwarded", 'host="a"b"', "bad quoting (quote inside)"),
    ("forwarded", "for=1.2.3.4;proto=ftp", "unsupported scheme"),
    ("x-forwarded-proto", "ftp", "unsupported scheme"),
    ("x-forwarded-proto", "http, https", "several values where one is required"),
    ("x-forwarded-host", "a.example, b.example", None),     # several hosts are a hop list: selected, not refused
    ("x-forwarded-port", "80, 81", "several values where one is required"),
    ("x-forwarded-for", '1.2.3.4"', "bad quoting (dangling quote)"),
    ("forwarded", "for=1.2.3.4;host=", "an empty host"),
    ("forwarded", 'for=1.2.3.4;host=""', "an empty host"),
    ("forwarded", "for=1.2.3.4;host=:80", "an empty host"),
    ("x-forwarded-host", "", "an empty host"),
]


def refusal_check(payload):
    base = {"REMOTE_ADDR": "10.0.0.9", "REMOTE_HOST": "10.0.0.9", "REMOTE_PORT": "1234", "SERVER_NAME": "srv", "SERVER_PORT": "80", "wsgi.url_scheme": "http"}
    keys = {"x-forwarded-for": "HTTP_X_FORWARDED_FOR", "x-forwarded-host": "HTTP_X_FORWARDED_HOST", "x-forwarded-proto": "HTTP_X_FORWARDED_PROTO",
            "x-forwarded-port": "HTTP_X_FORWARDED_PORT", "x-forwarded-by": "HTTP_X_FORWARDED_BY", "forwarded": "HTTP_FORWARDED"}
    failures, total = [], 0
    for kind, value, why in UNINTERPRETABLE:
        if why is None:
            continue
        total += 1
        try:
            st, env = run(dict(base, **{keys[kind]: value}), trusted_proxy="*", trusted_proxy_count=1, trusted_proxy_headers={kind})
        except Exception as e:
            st = "exception " + type(e).__name__
        if st != "400 Bad Request":
            failures.append({"kind": kind, "value": value, "class": why, "status": st})
    return {"total": total, "failures": failures}


# a host (with or without port) supplied by the trusted hop: expected SERVER_NAME / SERVER_PORT / HTTP_HOST
HOSTS = [
    ("x-forwarded-host", "example.com", ("example.com", None, "example.com")),
    ("x-forwarded-host", "example.com:8080", ("example.com", "8080", "example.com:8080")),
    ("x-forwarded-host", "[2001:db8::1]", ("[2001:db8::1]", None, "[2001:db8::1]")),
    ("x-forwarded-host", "[2001:db8::1]:8443", ("[2001:db8::1]", "8443", "[2001:db8::1]:8443")),
    ("forwarded", 'for=1.2.3.4;host="[2001:db8::1]:8443"', ("[2001:db8::1]", "8443", "[2001:db8::1]:8443")),
    ("forwarded", "for=1.2.3.4;host=example.com:81", ("example.com", "81", "example.com:81")),
    ("forwarded", "for=1.2.3.4;host=example.com", ("example.com", None, "example.com")),
]


def host_port_check(payload):
    base = {"REMOTE_ADDR": "10.0.0.9", "REMOTE_HOST": "10.0.0.9", "REMOTE_PORT": "1234", "SERVER_NAME": "srv", "SERVER_PORT": "80", "wsgi.url_scheme": "http",
            "HTTP_HOST": "srv"}
    keys = {"x-forwarded-host": "HTTP_X_FORWARDED_HOST", "forwarded": "HTTP_FORWARDED"}
    failures, total = [], 0
    for kind, value, (name, port, http_host) in HOSTS:
        total += 1
        try:
            st, env = run(dict(base, **{keys[kind]: value}), trusted_proxy="*", trusted_proxy_count=1, trusted_proxy_headers={kind})
        except Exception as e:
            failures.append({"kind": kind, "value": value, "exception": type(e).__name__ + ": " + str(e)[:80]})
            continue
        got = (env.get("SERVER_NAME"), env.get("SERVER_PORT"), env.get("HTTP_HOST"))
        want = (name, port or "80", http_host)
        if st != "200 OK" or got != want:
            failures.append({"kind": kind, "value": value, "status": st, "got": got, "expected": want})
    return {"total": total, "failures": failures}
