"""C07 bounded stand-in: request targets through the real parser and get_environment against an independent RFC 3986 split
(path up to the first '?' or '#', query between the first '?' and '#'), percent-decoding of the path only."""
import os
import sys
from urllib.parse import unquote_to_bytes

sys.path.insert(0, os.path.dirname(os.path.abspath(__file__)))
from common import Adj
from waitress.parser import HTTPRequestParser
from waitress.task import WSGITask


class Srv:
    effective_host, effective_port, server_name = "127.0.0.1", 80, "localhost"

    def __init__(self, adj):
        self.adj = adj


class Chan:
    addr = ("127.0.0.1", 1234)
    creation_time = 0

    def __init__(self, adj):
        self.adj = adj
        self.server = Srv(adj)

    def check_client_disconnected(self):
        return False


def reference(target):
    """(PATH_INFO, QUERY_STRING) for an origin-form / absolute-form target"""
    t = target
    if "://" in t.split("?")[0].split("#")[0] and not t.startswith("/"):
        rest = t.split("://", 1)[1]
        t = "/" + rest.split("/", 1)[1] if "/" in rest.split("?")[0].split("#")[0] else ""
        if "/" not in rest.split("?")[0].split("#")[0]:
            q = rest.split("?", 1)[1] if "?" in rest else ""
            return "", q.split("#", 1)[0]
    t = t.split("#", 1)[0]
    path, _, query = t.partition("?")
    path = unquote_to_bytes(path).decode("latin-1")
    if path.startswith("/"):
        path = "/" + path.lstrip("/")
    return path, query


TARGETS = ["/", "/a/b", "/a/b?x=1", "/a/b?x=1?y=2", "/a?x=1#frag", "/a#frag?notquery", "/report;v=2", "/a;p=1/b;q=2?z=;w", "/a%20b/c%3Fd?e%20f", "/%2Fx", "//a/b?x=1?y=2",
           "//a//b", "/a/./b/../c", "/?", "/a?", "/;", "/a;", "http://h.example/p/q?r=1", "http://h.example/p;x=1?r", "http://h.example", "/a%3Bb;c",
           "/caf%C3%A9", "/a+b?c+d", "/a:b@c", "/~u/._-", "/x?a=b&c=d;e=f"]


def targets(payload):
    failures, total = [], 0
    for t in TARGETS:
        total += 1
        p = HTTPRequestParser(Adj())
        data = ("GET %s HTTP/1.1\r\nHost: h\r\n\r\n" % t).encode("latin-1")
        p.received(data)
        if p.error is not None:
            failures.append({"target": t, "problem": "refused: %s" % p.error.body})
            continue
        adj = Adj()
        task = WSGITask(Chan(adj), p)
        env = task.get_environment()
        want = reference(t)
        got = (env["PATH_INFO"], env["QUERY_STRING"])
        if got != want:
            failures.append({"target": t, "expected": want, "got": got})
    return {"total": total, "failures": failures}
