"""Native side of vlib/modelreplay.py: rebuild the entry state of a solver counter-model as real objects, call the real
method, evaluate the failed contract clause on the before/after snapshots.  Runs under the suite's interpreter against
the tree under check."""
import ast
import copy
import types

from waitress import buffers, parser, receiver, utilities


def val(d):
    if d is None:
        return None
    t = d["t"]
    if t == "int" or t == "bool":
        return d["v"]
    if t == "bytes":
        return bytes(d["v"])
    if t == "str":
        return "".join(chr(c) for c in d["v"])
    if t == "none":
        return None
    if t == "obj":
        return build(d["cls"], d["fields"])
    return None


def build(cls, fields):
    f = {k: v for k, v in (fields or {}).items()}
    if cls == "io.File":
        import io
        fobj = io.BytesIO(val(f.get("content")) or b"")
        fobj.seek(val(f.get("pos")) or 0)
        return fobj
    if cls in ("buffers.FileBasedBuffer", "buffers.BytesIOBasedBuffer", "buffers.TempfileBasedBuffer", "buffers.ReadOnlyFileBasedBuffer"):
        fobj = build("io.File", (f.get("file") or {}).get("fields"))
        if cls == "buffers.ReadOnlyFileBasedBuffer":
            b = buffers.ReadOnlyFileBasedBuffer(fobj, val(f.get("block_size")) or 32768)
        else:
            b = getattr(buffers, cls.split(".")[1]).__new__(getattr(buffers, cls.split(".")[1]))
            b.file = fobj
        b.remain = val(f.get("remain")) or 0
        return b
    if cls == "buffers.OverflowableBuffer" and "strbuf" in f:
        b = buffers.OverflowableBuffer(val(f.get("overflow")) or 0)
        b.overflowed = bool(val(f.get("overflowed")))
        b.strbuf = val(f.get("strbuf")) or b""
        inner = f.get("buf")
        b.buf = None if inner is None or inner["t"] != "obj" else build(inner["cls"], inner["fields"])
        return b
    if cls == "buffers.OverflowableBuffer":
        b = buffers.OverflowableBuffer(1 << 30)
        data = val(f.get("view")) or b""
        if data:
            b.append(data)
        return b
    if cls == "receiver.FixedStreamReceiver":
        r = receiver.FixedStreamReceiver(0, build("buffers.OverflowableBuffer", (f.get("buf") or {}).get("fields")))
        r.remain = val(f.get("remain")) or 0
        r.completed = bool(val(f.get("completed")))
        return r
    if cls == "receiver.ChunkedReceiver":
        r = receiver.ChunkedReceiver(build("buffers.OverflowableBuffer", (f.get("buf") or {}).get("fields")))
        for name in ("chunk_remainder", "validate_chunk_end", "control_line", "chunk_end", "all_chunks_received", "trailer", "completed"):
            if f.get(name) is not None:
                setattr(r, name, val(f[name]))
        e = f.get("error")
        r.error = None if e is None or e["t"] == "none" else utilities.BadRequest("error present in the entry state")
        return r
    if cls == "adjustments.Adjustments":
        from common import Adj
        a = Adj()
        for k, v in f.items():
            if v is not None and v["t"] in ("int", "bool", "str", "bytes", "none"):
                setattr(a, k, val(v))
        return a
    if cls == "parser.HTTPRequestParser":
        adj = build("adjustments.Adjustments", (f.get("adj") or {}).get("fields"))
        p = parser.HTTPRequestParser(adj)
        for name in ("completed", "empty", "expect_continue", "headers_finished", "header_plus", "chunked", "content_length", "header_bytes_received",
                     "body_bytes_received", "version", "connection_close"):
            if f.get(name) is not None and f[name]["t"] in ("int", "bool", "str", "bytes"):
                setattr(p, name, val(f[name]))
        br = f.get("body_rcv")
        p.body_rcv = None if br is None or br["t"] != "obj" else build(br["cls"], br["fields"])
        e = f.get("error")
        p.error = None if e is None or e["t"] != "obj" else utilities.BadRequest("error present in the entry state")
        return p
    raise KeyError(cls)


def snap(o, depth=0):
    """plain snapshot of an object state with the abstract `view` of buffers"""
    if type(o).__name__ == "HTTPChannel" or (hasattr(o, "outbufs") and hasattr(o, "requests_lock")):
        # light snapshot of a channel: only the plain fields the monitored clauses read (a deep walk would slow the functional tests)
        req = getattr(o, "request", None)
        return types.SimpleNamespace(
            total_outbufs_len=getattr(o, "total_outbufs_len", 0), outbufs=[None] * len(getattr(o, "outbufs", ())),
            requests=[None] * len(getattr(o, "requests", ())), sent_continue=getattr(o, "sent_continue", False),
            close_when_flushed=getattr(o, "close_when_flushed", False), will_close=getattr(o, "will_close", False),
            connected=getattr(o, "connected", False), sendbuf_len=getattr(o, "sendbuf_len", 1),
            request=None if req is None else types.SimpleNamespace(completed=getattr(req, "completed", False)))
    if hasattr(o, "getvalue") and hasattr(o, "tell"):          # BytesIO standing for the model's io.File
        try:
            return types.SimpleNamespace(content=o.getvalue(), pos=o.tell(), closed=False)
        except ValueError:
            return types.SimpleNamespace(content=b"", pos=0, closed=True)
    if hasattr(o, "seek") and hasattr(o, "tell") and hasattr(o, "read") and not isinstance(o, (buffers.FileBasedBuffer, buffers.ReadOnlyFileBasedBuffer)):
        try:                                                    # a real file object (TemporaryFile)
            pos = o.tell(); o.seek(0); content = o.read(); o.seek(pos)
            return types.SimpleNamespace(content=content, pos=pos, closed=False)
        except Exception:
            return types.SimpleNamespace(content=b"", pos=0, closed=True)
    if isinstance(o, buffers.OverflowableBuffer):
        inner = snap(o.buf, depth + 1) if o.buf is not None else None
        view = o.strbuf if o.buf is None else inner.view
        ns = types.SimpleNamespace(view=bytes(view), closed=False, strbuf=o.strbuf, buf=inner, overflowed=o.overflowed, overflow=o.overflow)
        ns.__dict__["_cls"] = type(o)
        return ns
    if isinstance(o, (buffers.FileBasedBuffer, buffers.ReadOnlyFileBasedBuffer)):
        fs = snap(o.file, depth + 1)
        ns = types.SimpleNamespace(file=fs, remain=o.remain, view=fs.content[fs.pos:] if hasattr(fs, "content") else b"",
                                   block_size=getattr(o, "block_size", None))
        ns.__dict__["_cls"] = type(o)
        return ns
    if isinstance(o, (int, bool, bytes, str, type(None), float)):
        return o
    if isinstance(o, (list, tuple)):
        return type(o)(snap(x, depth + 1) for x in o)
    if isinstance(o, dict):
        return {k: snap(v, depth + 1) for k, v in o.items()}
    if depth > 3:
        return o
    ns = types.SimpleNamespace()
    ns.__dict__["_cls"] = type(o)
    for k in dir(o):
        if k.startswith("__"):
            continue
        try:
            v = getattr(o, k)
        except Exception:
            continue
        if callable(v):
            continue
        ns.__dict__[k] = snap(v, depth + 1)
    return ns


class NotEvaluable(Exception):
    pass


class Rewrite(ast.NodeTransformer):
    """implies(a, b) -> (not a) or b   ;   old(e) -> __old(<index>)  (evaluated on the before-snapshot)"""
    def __init__(self):
        self.olds = []

    def visit_Compare(self, node):
        # object identity cannot be judged on snapshots (only `is None` can)
        for op, right in zip(node.ops, node.comparators):
            if isinstance(op, (ast.Is, ast.IsNot)) and not (isinstance(right, ast.Constant) and right.value is None):
                raise NotEvaluable("identity")
        return self.generic_visit(node)

    def visit_Call(self, node):
        if isinstance(node.func, ast.Name) and node.func.id == "implies" and len(node.args) == 2:
            a, b = self.visit(node.args[0]), self.visit(node.args[1])
            return ast.BoolOp(op=ast.Or(), values=[ast.UnaryOp(op=ast.Not(), operand=a), b])
        if isinstance(node.func, ast.Name) and node.func.id == "old" and len(node.args) == 1:
            self.olds.append(node.args[0])
            return ast.Subscript(value=ast.Name(id="__olds", ctx=ast.Load()), slice=ast.Constant(len(self.olds) - 1), ctx=ast.Load())
        return self.generic_visit(node)


def isinst(x, name):
    c = getattr(x, "_cls", type(x))
    return any(k.__name__ == name for k in c.__mro__)


def fdn(s):
    return utilities.find_double_newline(s)


FUNCS = {"len": len, "min": min, "max": max, "fdn": fdn, "isinst": isinst, "bool": bool, "int": int, "str": str, "abs": abs}


def evaluate(clause, before, after, args, result):
    rw = Rewrite()
    tree = ast.fix_missing_locations(rw.visit(ast.parse(clause.strip(), mode="eval")))
    env_old = dict(FUNCS, self=before, **args)
    olds = [eval(compile(ast.fix_missing_locations(ast.Expression(body=o)), "<old>", "eval"), env_old) for o in rw.olds]
    env = dict(FUNCS, self=after, result=result, __olds=olds, **args)
    return eval(compile(tree, "<clause>", "eval"), env)


def model_replay(p):
    try:
        obj = build(p["cls"], p["fields"])
    except Exception as ex:
        return {"reproduced": False, "why": "entry state not constructible: %r" % (ex,)}
    args = {k: val(v) for k, v in (p.get("args") or {}).items()}
    before = snap(obj)
    shown = {"self": {k: (repr(v)[:120]) for k, v in vars(before).items() if not k.startswith("_") and isinstance(v, (int, bool, bytes, str, type(None)))},
             "args": {k: repr(v)[:200] for k, v in args.items()}}
    if getattr(before, "buf", None) is not None and hasattr(before.buf, "view"):
        shown["self"]["buf.view"] = repr(before.buf.view)[:120]
    if hasattr(before, "view"):
        shown["self"]["view"] = repr(before.view)[:120]
    if getattr(before, "file", None) is not None and hasattr(before.file, "content"):
        shown["self"]["file"] = "content=%r pos=%d" % (before.file.content[:80], before.file.pos)
    try:
        result = getattr(obj, p["method"])(**args)
        raised = None
    except BaseException as ex:     # noqa
        result, raised = None, ex
    if p["kind"] == "raises":
        hit = raised is not None and any(k.__name__ == p["exc"].split(".")[-1] for k in type(raised).__mro__)
        return {"reproduced": bool(hit), "input": shown, "observed": "raised %r" % (raised,) if raised else "returned %r" % (result,)}
    if raised is not None:
        return {"reproduced": False, "input": shown, "why": "the call raised %r natively (the clause is about normal return)" % (raised,)}
    try:
        ok = evaluate(p["clause"], before, snap(obj), args, result)
    except Exception as ex:
        return {"reproduced": False, "input": shown, "why": "clause not evaluable natively: %r" % (ex,)}
    return {"reproduced": not bool(ok), "input": shown, "observed": {"result": repr(result)[:200]}, "clause_value": bool(ok)}


def function_replay(p):
    """module-level function over plain values: call it with the model's arguments"""
    import importlib
    mod, fn = p["func"].split(".")
    f = getattr(importlib.import_module("waitress." + mod), fn)
    args = {k: val(v) for k, v in (p.get("args") or {}).items()}
    shown = {"args": {k: repr(v)[:300] for k, v in args.items()}}
    try:
        result = f(**args)
        raised = None
    except BaseException as ex:     # noqa
        result, raised = None, ex
    if p["kind"] == "raises":
        hit = raised is not None and any(k.__name__ == p["exc"].split(".")[-1] for k in type(raised).__mro__)
        return {"reproduced": bool(hit), "input": shown, "observed": "raised %r" % (raised,) if raised else "returned %r" % (result,)}
    if raised is not None:
        return {"reproduced": False, "input": shown, "why": "the call raised %r natively" % (raised,)}
    try:
        ok = evaluate(p["clause"], None, None, args, snap(result))
    except Exception as ex:
        return {"reproduced": False, "input": shown, "why": "clause not evaluable natively: %r" % (ex,)}
    return {"reproduced": not bool(ok), "input": shown, "observed": {"result": repr(result)[:200]}, "clause_value": bool(ok)}
