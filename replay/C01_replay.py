"""C01 native replays (real parser loop as HTTPChannel.received drives it)."""
import os, sys
sys.path.insert(0, os.path.dirname(os.path.abspath(__file__)))
from common import Adj
from C10_replay import *          # the framing-critical site routines are shared with C10
from waitress.parser import HTTPRequestParser


def feed(stream, adj=None):
    adj = adj or Adj()
    out = []
    data = stream
    p = None
    while data:
        if p is None:
            p = HTTPRequestParser(adj)
        n = p.received(data)
        if p.completed:
            if not p.empty:
                body = p.get_body_stream().read() if p.error is None else b""
                out.append({"error": type(p.error).__name__ if p.error else None, "command": getattr(p, "command", None), "path": getattr(p, "path", None), "body": body.decode("latin-1"),
                            "close": bool(p.connection_close)})
                if p.error is not None:
                    break
            p = None
        if n >= len(data):
            break
        data = data[n:]
    return out


def trailer(payload):
    """a malformed trailer line must be refused (C01 statement); returns what the real parser does"""
    res = []
    for t in payload["trailers"]:
        stream = b"POST / HTTP/1.1\r\nHost: x\r\nTransfer-Encoding: chunked\r\n\r\n1\r\na\r\n0\r\n" + t.encode("latin-1") + b"\r\n\r\n"
        msgs = feed(stream)
        res.append({"trailer": t, "accepted": bool(msgs) and msgs[0]["error"] is None})
    return {"results": res}
