"""C20 finite tables evaluated on the real code (exhaustive over finite spaces; not deductions)."""
import itertools, os, re, socket, sys, warnings
sys.path.insert(0, os.path.dirname(os.path.abspath(__file__)))
from waitress.adjustments import Adjustments, asbool
from waitress import runner

warnings.simplefilter("ignore")


def build(**kw):
    try:
        return Adjustments(**kw), None
    except ValueError as e:
        return None, str(e)


def exclusion(payload):
    vals = {"listen": "127.0.0.1:8080", "host": "127.0.0.1", "port": 8080, "sockets": [], "unix_socket": "/tmp/x.sock"}
    names = list(vals)
    bad = []
    for r in range(len(names) + 1):
        for sub in itertools.combinations(names, r):
            groups = sum([("listen" in sub), ("host" in sub or "port" in sub), ("sockets" in sub), ("unix_socket" in sub)])
            adj, err = build(**{k: vals[k] for k in sub})
            if (groups >= 2) != (adj is None):
                bad.append({"subset": sub, "refused": adj is None, "groups": groups, "err": err})
    return {"total": 32, "failures": bad[:5]}


def unknown_and_proxy(payload):
    bad = []
    cases = [({"no_such_option": 1}, True), ({"trusted_proxy_count": 2}, True), ({"trusted_proxy_headers": "x-forwarded-for"}, True),
             ({"trusted_proxy": "1.2.3.4", "trusted_proxy_headers": "x-bogus"}, True), ({"trusted_proxy": "1.2.3.4", "trusted_proxy_headers": "forwarded x-forwarded-for"}, True),
             ({"trusted_proxy": "1.2.3.4", "trusted_proxy_headers": "forwarded"}, False), ({"trusted_proxy": "1.2.3.4", "trusted_proxy_count": 2, "trusted_proxy_headers": "X-Forwarded-For x-forwarded-proto"}, False),
             ({"clear_untrusted_proxy_headers": True}, False), ({}, False)]
    for kw, refuse in cases:
        adj, err = build(**kw)
        if (adj is None) != refuse:
            bad.append({"kw": kw, "refused": adj is None, "expected_refused": refuse})
    return {"total": len(cases), "failures": bad}


SAMPLE = {"int": "7", "str": "abc", "asoctal": "640", "aslist": "a b", "asset": "forwarded", "slash_fixed_str": "/p/", "str_iftruthy": "ident", "as_socket_list": None}


def cli_equiv(payload):
    bad, total = [], 0
    base_cli = ["--listen=127.0.0.1:0"]
    for name, cast in Adjustments._params:
        if name in ("sockets",):          # no command-line form by nature
            continue
        opt = "--" + name.replace("_", "-")
        forms = []
        if cast is asbool:
            forms = [([opt], {name: True}), (["--no-" + name.replace("_", "-")], {name: False})]
        else:
            v = SAMPLE.get(cast.__name__, "1")
            if name == "listen":
                v = "127.0.0.1:0"
            if name in ("host",):
                v = "127.0.0.1"
            if name == "trusted_proxy_headers":
                v = "forwarded"
            forms = [([opt + "=" + v], {name: v})]
        for argv, kw in forms:
            total += 1
            extra_cli, extra_kw = [], {}
            if name in ("trusted_proxy_count", "trusted_proxy_headers"):
                extra_cli, extra_kw = ["--trusted-proxy=1.2.3.4"], {"trusted_proxy": "1.2.3.4"}
            def outcome(fn):
                try:
                    return fn(), None
                except Exception as e:
                    return None, type(e).__name__ + ": " + str(e)[:120]

            def from_cli():
                kw_cli = Adjustments.parse_args(argv + extra_cli + ["waitress.compat:WIN"])
                for k in ("help", "app"):
                    kw_cli.pop(k, None)
                return Adjustments(**kw_cli)
            a1, e1 = outcome(from_cli)
            a2, e2 = outcome(lambda: Adjustments(**dict(kw, **extra_kw)))
            if e1 or e2:
                if e1 != e2:         # both spellings must be refused alike (e.g. --no-ipv4 on a host without IPv6)
                    bad.append({"option": name, "argv": argv, "cli": e1, "keyword": e2})
                continue
            diff = [p for p, _ in Adjustments._params if getattr(a1, p) != getattr(a2, p)]
            if diff:
                bad.append({"option": name, "argv": argv, "differs": diff})
    return {"total": total, "failures": bad[:5]}


def docs_table(payload):
    root = payload["repo_root"]
    params = [p for p, _ in Adjustments._params]
    rst = open(os.path.join(root, "docs", "arguments.rst")).read()
    documented = set(re.findall(r"^([a-z_0-9]+)\n {2,}\S", rst, flags=re.M))
    helptext = runner.HELP
    cli_opts = set(m.replace("-", "_") for m in re.findall(r"^\s{4}--(?:\[no-\]|no-)?([a-z0-9-]+)", helptext, flags=re.M))
    bad = []
    for p in params:
        if p not in documented:
            bad.append({"missing_in_docs/arguments.rst": p})
        if p != "sockets" and p not in cli_opts:
            bad.append({"missing_in_runner_help": p})
    for d in documented:
        if d not in params:
            bad.append({"documented_but_not_implemented": d})
    for c in cli_opts:
        if c not in params and c not in ("help", "call", "app", "expose_tracebacks"):
            bad.append({"help_lists_unknown_option": c})
    return {"total": len(params), "failures": bad[:8], "documented": len(documented), "help_options": len(cli_opts)}


class FakeSock:
    def __init__(self, family, type):
        self.family, self.type = family, type


def sockets_table(payload):
    fams = [socket.AF_INET, socket.AF_INET6, socket.AF_UNIX, getattr(socket, "AF_PACKET", 17)]
    types = [socket.SOCK_STREAM, socket.SOCK_DGRAM]
    combos = list(itertools.product(fams, types))
    bad, total = [], 0
    for r in (1, 2):
        for socks in itertools.product(combos, repeat=r):
            total += 1
            unsupported = any(t != socket.SOCK_STREAM or f not in (socket.AF_INET, socket.AF_INET6, socket.AF_UNIX) for f, t in socks)
            inet = any(f in (socket.AF_INET, socket.AF_INET6) and t == socket.SOCK_STREAM for f, t in socks)
            unix = any(f == socket.AF_UNIX and t == socket.SOCK_STREAM for f, t in socks)
            expect_refuse = unsupported or (inet and unix)
            try:
                Adjustments.check_sockets([FakeSock(f, t) for f, t in socks])
                refused = False
            except ValueError:
                refused = True
            if refused != expect_refuse:
                bad.append({"sockets": [(int(f), int(t)) for f, t in socks], "refused": refused, "expected": expect_refuse})
    return {"total": total, "failures": bad[:5]}


def boolean_spellings(payload):
    """which adjustments are switches is taken from docs/arguments.rst (Default: ``True`` / ``False``), not from the code's cast table:
    every documented switch accepts every documented spelling in keyword form and both --x / --no-x on the command line"""
    root = payload["repo_root"]
    rst = open(os.path.join(root, "docs", "arguments.rst")).read()
    switches, cur = [], None
    for line in rst.splitlines():
        if re.fullmatch(r"[a-z_0-9]+", line):
            cur = line
        elif line and not line.startswith(" "):
            cur = None
        elif cur:
            m = re.match(r" {2,}Default: ``(True|False)``", line)
            if m:
                switches.append((cur, m.group(1)))
                cur = None
    truthy = ["t", "true", "y", "yes", "on", "1", "True", "YES", " on "]
    falsy = ["f", "false", "n", "no", "off", "0", "False", "", "NO"]
    bad, total = [], 0
    for name, _default in switches:
        if name not in dict(Adjustments._params):
            continue
        for v, want in [(x, True) for x in truthy] + [(x, False) for x in falsy] + [(True, True), (False, False), (None, False)]:
            total += 1
            adj, err = build(**{name: v, "listen": "127.0.0.1:0"})      # a literal address: no resolver involved
            if name in ("ipv4", "ipv6") and err:      # a host without that address family refuses the option outright
                continue
            if err or getattr(adj, name) is not want:
                bad.append({"option": name, "keyword_value": v, "expected": want, "got": err or repr(getattr(adj, name))})
        opt = name.replace("_", "-")
        for argv, want in ((["--" + opt], True), (["--no-" + opt], False)):
            total += 1
            try:
                kw = Adjustments.parse_args(argv + ["--listen=127.0.0.1:0", "waitress.compat:WIN"])
                for k in ("help", "app"):
                    kw.pop(k, None)
                got = getattr(Adjustments(**kw), name)          # the cast is applied by the constructor
            except Exception as e:
                got = type(e).__name__ + ": " + str(e)[:80]
            if got is not want:
                bad.append({"option": name, "argv": argv, "expected": want, "got": repr(got)})
    return {"total": total, "switches": [n for n, _ in switches], "failures": bad[:6]}


def host_port_applied(payload):
    """host= / port= given alone or together are applied to the listen address (never silently dropped), keyword and command-line form alike"""
    cases = [({"port": 1234}, ["--port=1234"], (None, 1234)), ({"host": "127.0.0.1"}, ["--host=127.0.0.1"], ("127.0.0.1", None)),
             ({"host": "127.0.0.1", "port": 4321}, ["--host=127.0.0.1", "--port=4321"], ("127.0.0.1", 4321)),
             ({"port": "2345"}, ["--port=2345"], (None, 2345))]
    bad = []
    for kw, argv, (host, port) in cases:
        for form, build_it in (("keyword", lambda: Adjustments(**kw)),
                               ("cli", lambda: Adjustments(**{k: v for k, v in Adjustments.parse_args(argv + ["waitress.compat:WIN"]).items() if k not in ("help", "app")}))):
            try:
                a = build_it()
            except Exception as e:
                bad.append({"form": form, "kw": kw, "error": type(e).__name__ + ": " + str(e)[:80]})
                continue
            addrs = [(l[3][0], l[3][1]) for l in a.listen]
            ok = bool(addrs) and all((host is None or h == host) and (port is None or p == port) for h, p in addrs)
            if not ok:
                bad.append({"form": form, "kw": kw, "listen": addrs, "expected_host": host, "expected_port": port})
    return {"total": len(cases) * 2, "failures": bad}


def list_spellings(payload):
    """a list-valued adjustment given as ONE string (elements separated by any run of blanks, tabs or newlines, as documented) equals the list form"""
    seps = [" ", "  ", "\t", "\n", " \n ", "\r\n", " \t "]
    bad, total = [], 0
    lists = [("trusted_proxy_headers", ["x-forwarded-for", "x-forwarded-host", "x-forwarded-proto"], {"trusted_proxy": "127.0.0.1"},
              lambda a: sorted(a.trusted_proxy_headers)),
             ("listen", ["127.0.0.1:8080", "127.0.0.1:8081"], {}, lambda a: sorted((l[3][0], l[3][1]) for l in a.listen))]
    for name, elems, extra, view in lists:
        try:
            want = view(Adjustments(**dict(extra, **{name: list(elems)})))
        except Exception as e:
            return {"error": "list form refused: %s %s" % (name, e)}
        for sep in seps:
            for pad_l, pad_r in (("", ""), (" ", ""), ("", "\n"), ("\t", " ")):
                text = pad_l + sep.join(elems) + pad_r
                forms = [("keyword", lambda: Adjustments(**dict(extra, **{name: text})))]
                if "\n" not in text and "\r" not in text:
                    argv = ["--%s=%s" % (name.replace("_", "-"), text)] + ["--%s=%s" % (k.replace("_", "-"), v) for k, v in extra.items()]
                    forms.append(("cli", lambda: Adjustments(**{k: v for k, v in Adjustments.parse_args(argv + ["waitress.compat:WIN"]).items() if k not in ("help", "app")})))
                for form, build_it in forms:
                    total += 1
                    try:
                        got = view(build_it())
                    except Exception as e:
                        bad.append({"adjustment": name, "form": form, "value": text, "error": type(e).__name__ + ": " + str(e)[:80]})
                        continue
                    if got != want:
                        bad.append({"adjustment": name, "form": form, "value": text, "got": got, "expected": want})
    return {"total": total, "failures": bad}
