"""C10 native replays: a raw token is pushed through the real enclosing function; the
verdict is `refused` (error recorded / ParsingError raised) or not."""
import itertools
import os, sys
sys.path.insert(0, os.path.dirname(os.path.abspath(__file__)))
from common import Adj, exc_name

from waitress.buffers import OverflowableBuffer
from waitress.parser import HTTPRequestParser, ParsingError, TransferEncodingNotImplemented, get_header_lines
from waitress.receiver import ChunkedReceiver


def _chunk_line(tok):
    r = ChunkedReceiver(OverflowableBuffer(1 << 20))
    try:
        r.received(tok + b"\r\n")
    except Exception as e:
        return None, exc_name(e)
    return r.error is not None, None


def _request_line(tok):
    p = HTTPRequestParser(Adj())
    try:
        p.parse_header(tok + b"\r\n")
    except (ParsingError, TransferEncodingNotImplemented):
        return True, None
    except Exception as e:
        return None, exc_name(e)
    return False, None


def _physical_line(tok):
    try:
        get_header_lines(b"X-First: y\r\n" + tok)
    except ParsingError:
        return True, None
    except Exception as e:
        return None, exc_name(e)
    return False, None


def _header_line(tok):
    p = HTTPRequestParser(Adj())
    try:
        p.parse_header(b"GET / HTTP/1.0\r\n" + tok)
    except (ParsingError, TransferEncodingNotImplemented):
        return True, None
    except Exception as e:
        return None, exc_name(e)
    return False, None


def _content_length(tok):
    p = HTTPRequestParser(Adj())
    p.headers["CONTENT_LENGTH"] = tok.decode("latin-1")
    try:
        p.parse_header(b"GET / HTTP/1.0\r\n")
    except (ParsingError, TransferEncodingNotImplemented):
        return True, None
    except Exception as e:
        return None, exc_name(e)
    return False, None


def _leading_bytes(tok):
    p = HTTPRequestParser(Adj())
    try:
        p.received(tok + b"GET / HTTP/1.1\r\n\r\n")
    except Exception as e:
        return None, exc_name(e)
    accepted = p.completed and p.error is None and not p.empty and getattr(p, "command", None) == "GET"
    return (not accepted), None


ROUTINES = {"chunk_line": _chunk_line, "request_line": _request_line, "physical_line": _physical_line,
            "header_line": _header_line, "content_length": _content_length, "leading_bytes": _leading_bytes}


def _many(name, payload):
    refused, raised = [], []
    for t in payload["tokens"]:
        r, ex = ROUTINES[name](t.encode("latin-1"))
        refused.append(r)
        raised.append(ex)
    return {"refused": refused, "raised": raised, "routine": name}


def chunk_line(p): return _many("chunk_line", p)
def request_line(p): return _many("request_line", p)
def physical_line(p): return _many("physical_line", p)
def header_line(p): return _many("header_line", p)
def content_length(p): return _many("content_length", p)
def leading_bytes(p): return _many("leading_bytes", p)


def enumerate(payload):
    fn = ROUTINES[payload["routine"]]
    reps = payload["alphabet"]
    k = payload["k"]
    refused = []
    total = 0
    errors = []
    for L in range(k + 1):
        for tup in itertools.product(reps, repeat=L):
            w = bytes(tup)
            total += 1
            r, ex = fn(w)
            if ex is not None:
                if len(errors) < 5:
                    errors.append([w.hex(), ex])
                r = True   # an escaping exception is not an acceptance
            if r:
                refused.append(w.hex())
    return {"total": total, "refused_hex": refused, "unexpected_exceptions": errors}
