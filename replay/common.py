"""helpers for native replays (python 3.12, real waitress)"""
import io
import waitress
from waitress.adjustments import Adjustments


class Adj:
    """plain attribute bag with the Adjustments defaults (no socket resolution)"""
    def __init__(self, **kw):
        for name, _ in Adjustments._params:
            setattr(self, name, getattr(Adjustments, name))
        self.trusted_proxy_count = 1
        for k, v in kw.items():
            setattr(self, k, v)


def exc_name(e):
    return type(e).__name__ + ": " + str(e)[:200]
