"""pytest plugin (suite interpreter): evaluates the sidecar contracts of the receivers, the parser and the buffers at run time
on every call the repository's own tests make.  A firing clause means the contract is too strict (a false-alarm risk) or the
code has a defect the tests do not assert.  Clauses that cannot be evaluated natively (ghost functions, mocks standing in for
buffers) are counted, not failed.  Enabled by WAITRESS_CONTRACTS=<json>; result written to WAITRESS_MONITOR_OUT."""
import functools
import importlib
import inspect
import json
import os

import model_replay as mr

STATS = {}
FAIL = []


def _rec(qual, kind, name, status):
    k = "%s/%s:%s" % (qual, kind, name)
    d = STATS.setdefault(k, {"held": 0, "failed": 0, "unmet": 0, "not_evaluable": 0})
    d[status] += 1


def _eval(qual, kind, name, text, before, after, args, result, pre=False):
    try:
        ok = mr.evaluate(text, before, after, args, result)
    except Exception:
        _rec(qual, kind, name, "not_evaluable")
        return None
    _rec(qual, kind, name, "held" if ok else ("unmet" if pre else "failed"))
    if not ok and not pre and len(FAIL) < 50:
        FAIL.append({"clause": "%s/%s:%s" % (qual, kind, name), "text": text,
                     "self": {k: repr(v)[:120] for k, v in vars(before).items() if not k.startswith("_")} if hasattr(before, "__dict__") else repr(before)[:200],
                     "args": {k: repr(v)[:120] for k, v in args.items()}, "result": repr(result)[:120],
                     "test": os.environ.get("PYTEST_CURRENT_TEST", "")})
    return bool(ok)


def wrap(qual, con, orig):
    sig = inspect.signature(orig)

    @functools.wraps(orig)
    def wrapper(self, *a, **kw):
        try:
            bound = sig.bind(self, *a, **kw)
            bound.apply_defaults()
            args = {k: mr.snap(v) for k, v in list(bound.arguments.items())[1:]}
            before = None if con["fresh_self"] else mr.snap(self)
        except Exception:
            return orig(self, *a, **kw)
        pre_ok = True
        # a requires / entry-invariant that does not hold is the TEST's set-up (unit tests poke fields), not a contract failure:
        # it is counted under "unmet" and the postconditions of that call are not judged
        for name, text in con["requires"]:
            if _eval(qual, "requires", name, text, before, before, args, None, pre=True) is not True:
                pre_ok = False          # unmet, or not judgeable (a mock in place of a buffer): the call's postconditions are not judged
        if before is not None and con.get("assume_invariant", True):
            for name, text in con["invariants"]:
                if _eval(qual, "inv-at-entry", name, text, before, before, args, None, pre=True) is not True:
                    pre_ok = False
        try:
            result = orig(self, *a, **kw)
        except BaseException:
            if pre_ok and before is not None:
                after = mr.snap(self)
                for name, text in con["ensures_exc"]:
                    _eval(qual, "ensures-exc", name, text, before, after, args, None)
            raise
        if pre_ok:
            try:
                after = mr.snap(self)
            except Exception:
                return result
            b = before if before is not None else after
            for name, text in con["ensures"]:
                _eval(qual, "ensures", name, text, b, after, args, result)
            if con["check_invariant"]:
                for name, text in con["invariants"]:
                    _eval(qual, "inv", name, text, b, after, args, result)
        return result
    wrapper.__wrapped_by_monitor__ = True
    return wrapper


def pytest_configure(config):
    path = os.environ.get("WAITRESS_CONTRACTS")
    if not path:
        return
    for qual, con in json.load(open(path)).items():
        if con.get("inline"):
            continue
        mod, cls, meth = qual.split(".")
        try:
            c = getattr(importlib.import_module("waitress." + mod), cls)
            orig = c.__dict__[meth]
        except Exception:
            continue
        if not inspect.isfunction(orig):
            continue
        setattr(c, meth, wrap(qual, con, orig))


def pytest_sessionfinish(session, exitstatus):
    out = os.environ.get("WAITRESS_MONITOR_OUT")
    if out:
        json.dump({"clauses": STATS, "failures": FAIL}, open(out, "w"), indent=1)
