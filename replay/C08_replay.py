"""C08 bounded stand-in: the response head written for a list of application headers contains every application header
line exactly as often as the application gave it (order aside), plus only the server's own fields, and nothing else."""
import os
import sys

sys.path.insert(0, os.path.dirname(os.path.abspath(__file__)))
from common import Adj
from waitress.parser import HTTPRequestParser
from waitress.task import WSGITask


class Srv:
    effective_host, effective_port, server_name = "127.0.0.1", 80, "localhost"

    def __init__(self, adj):
        self.adj = adj


class Chan:
    addr = ("127.0.0.1", 1234)
    creation_time = 0

    def __init__(self, adj):
        self.adj = adj
        self.server = Srv(adj)
        self.written = b""

    def write_soon(self, data):
        self.written += bytes(data) if not hasattr(data, "get") else b""
        return len(data)

    def check_client_disconnected(self):
        return False


CASES = [
    [("Content-Type", "text/plain"), ("Content-Length", "2")],
    [("Set-Cookie", "a=1"), ("Set-Cookie", "a=1"), ("Content-Length", "2")],
    [("Set-Cookie", "a=1"), ("Set-Cookie", "b=2"), ("set-cookie", "a=1"), ("Content-Length", "2")],
    [("X-Tag", "v"), ("x-tag", "v"), ("X-TAG", "v"), ("Content-Length", "2")],
    [("Link", "<a>; rel=x"), ("Link", "<a>; rel=x"), ("Warning", "199 - x"), ("Warning", "199 - x")],
    [("Content-Length", "2"), ("Date", "Mon, 01 Jan 2001 00:00:00 GMT"), ("Server", "mine")],
    [],
]


def heads(payload):
    failures, total = [], 0
    for version in ("1.0", "1.1"):
        for hdrs in CASES:
            total += 1
            adj = Adj()
            p = HTTPRequestParser(adj)
            p.received(("GET / HTTP/%s\r\nHost: h\r\n\r\n" % version).encode())
            ch = Chan(adj)
            task = WSGITask(ch, p)
            task.status = "200 OK"
            task.response_headers = list(hdrs)
            task.content_length = 2 if any(k.lower() == "content-length" for k, _ in hdrs) else None
            task.complete = True
            task.write(b"ok")
            head = ch.written.split(b"\r\n\r\n", 1)[0].decode("latin-1").split("\r\n")[1:]
            got = sorted((l.split(": ", 1)[0].lower(), l.split(": ", 1)[1]) for l in head)
            want = sorted((k.lower(), v) for k, v in hdrs)
            missing = list(want)
            for g in got:
                if g in missing:
                    missing.remove(g)
            extra = [g for g in got if g[0] not in ("date", "server", "via", "connection", "transfer-encoding", "content-length") and got.count(g) > want.count(g)]
            if missing or extra:
                failures.append({"version": version, "headers": hdrs, "missing_from_head": missing, "unexpected": extra})
    return {"total": total, "failures": failures}
