"""Native re-enactment of KF-C12-1 on the real HTTPChannel (no model): with outbuf_high_watermark < send_bytes, a producer paused
above the mark is never released although the client reads again, because handle_write() sends nothing while a request is
in progress and the backlog is below send_bytes.

run: PYTHONPATH=<tree>/src python c12_paused_below_send_bytes.py   -> exit 1 and a description when the producer is stuck, exit 0 otherwise"""
import errno
import sys
import threading
import time

from waitress.adjustments import Adjustments
from waitress.channel import HTTPChannel


class Sock:
    """a client that reads nothing at first (send -> EWOULDBLOCK) and everything later"""
    def __init__(self):
        self.full = True
        self.sent = b""

    def setblocking(self, v):
        pass

    def fileno(self):
        return 77

    def getpeername(self):
        return ("127.0.0.1", 1)

    def getsockopt(self, *a):
        return 65536

    def send(self, data):
        if self.full:
            raise OSError(errno.EWOULDBLOCK, "full")
        self.sent += bytes(data)
        return len(data)

    def close(self):
        pass


class Server:
    def __init__(self, adj):
        self.adj = adj
        self.active_channels = {}
        self.pulled = 0

    def pull_trigger(self):
        self.pulled += 1

    def add_task(self, task):
        pass


def main():
    adj = Adjustments(outbuf_high_watermark=1000, send_bytes=18000)
    sock, srv, smap = Sock(), Server(Adjustments(outbuf_high_watermark=1000, send_bytes=18000)), {}
    ch = HTTPChannel(srv, sock, ("127.0.0.1", 1), adj, map=smap)
    ch.requests = [object()]               # a request is in progress: the worker below is its task writing the body
    done = threading.Event()

    def producer():
        ch.write_soon(b"x" * 1500)         # 1500 > watermark: accepted (the mark is checked before the append) ...
        ch.write_soon(b"y")                # ... and the next write pauses until the backlog is at or below the mark
        done.set()
    t = threading.Thread(target=producer, daemon=True)
    t.start()
    time.sleep(0.3)
    if done.is_set():
        print("producer was not paused: scenario not reached")
        return 0
    sock.full = False                      # the client reads again: the socket is writable, the loop calls handle_write()
    for _ in range(50):
        if ch.writable():
            ch.handle_write()
        if done.wait(0.02):
            break
    if done.is_set():
        print("producer released after the client drained; sent %d bytes" % len(sock.sent))
        return 0
    print("KF-C12-1: producer still paused after 50 handle_write() calls on a writable socket: backlog %d > outbuf_high_watermark %d, "
          "but < send_bytes %d and a request is in progress, so the I/O thread sends nothing (sent %d bytes); writable() stays true (busy loop)"
          % (ch.total_outbufs_len, adj.outbuf_high_watermark, adj.send_bytes, len(sock.sent)))
    return 1


if __name__ == "__main__":
    sys.exit(main())
