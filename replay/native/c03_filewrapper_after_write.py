import socket, threading, time, io
from waitress.server import create_server
def app(environ, start_response):
    if environ["PATH_INFO"] == "/second":
        start_response("200 OK", [("Content-Length", "2")]); return [b"OK"]
    w = start_response("200 OK", [("Content-Type", "text/plain"), ("Content-Length", "10")])
    w(b"12345")
    return environ["wsgi.file_wrapper"](io.BytesIO(b"abc"))
srv = create_server(app, host="127.0.0.1", port=0, _start=True)
port = srv.effective_port
t = threading.Thread(target=srv.run, daemon=True); t.start()
s = socket.create_connection(("127.0.0.1", port)); s.settimeout(3)
s.sendall(b"GET / HTTP/1.1\r\nHost: x\r\n\r\nGET /second HTTP/1.1\r\nHost: x\r\n\r\n")
data = b""
try:
    while True:
        d = s.recv(65536)
        if not d: print("server closed"); break
        data += d
except socket.timeout:
    print("timeout (connection kept open)")
print(data)
