"""Native re-enactment (real HTTPChannel, real parser/task; scripted socket, one forced legal interleaving).

History: request 1 is being served by a worker; the next request (Expect: 100-continue, head complete, body pending)
has already been read.  At the end of service() the worker pops request 1 (requests becomes empty) and calls
send_continue(), which appends the interim response and flushes it under outbuf_lock.  The I/O thread's handle_write()
sees `not self.requests` and flushes WITHOUT the lock.  Both flushes read the same chunk.

exit 0: every byte was sent exactly once and the counter is consistent; exit 1: the race is real on this tree."""
import sys, threading
from waitress.channel import HTTPChannel
from waitress.adjustments import Adjustments


class Sock:
    def __init__(self):
        self.sent = []
        self.block_worker = threading.Event()      # set: the worker's next send() parks
        self.worker_parked = threading.Event()
        self.release = threading.Event()
        self.worker_ident = None

    def getsockopt(self, *a): return 65536
    def setblocking(self, f): pass
    def fileno(self): return 99
    def getpeername(self): return ("127.0.0.1", 1)
    def close(self): pass

    def send(self, data):
        data = bytes(data)
        if threading.get_ident() == self.worker_ident and self.block_worker.is_set() and b"100 Continue" in data:
            self.block_worker.clear()
            self.worker_parked.set()               # the worker is inside send(): chunk read, not yet skipped
            self.release.wait(10)
        self.sent.append(data)
        return len(data)


class Server:
    def __init__(self):
        self.active_channels = {}
        self.tasks = []
        self.adj = None
    def add_task(self, ch): self.tasks.append(ch)
    def pull_trigger(self): pass
    def application(self, environ, start_response):
        start_response("200 OK", [("Content-Length", "2")])
        return [b"ok"]
    effective_host, effective_port, server_name = "127.0.0.1", 80, "localhost"


adj = Adjustments()
sock, srv = Sock(), Server()
srv.adj = adj
ch = HTTPChannel(srv, sock, ("127.0.0.1", 1), adj, map={})
ch.received(b"GET /one HTTP/1.1\r\nHost: h\r\n\r\n" b"PUT /two HTTP/1.1\r\nHost: h\r\nContent-Length: 3\r\nExpect: 100-continue\r\n\r\n")
assert len(ch.requests) == 1 and ch.request is not None and ch.request.expect_continue and not ch.sent_continue

def worker():
    sock.worker_ident = threading.get_ident()
    sock.block_worker.set()
    ch.service()

w = threading.Thread(target=worker); w.start()
if not sock.worker_parked.wait(10):
    print("worker never reached the flush in send_continue"); sock.release.set(); w.join(); sys.exit(0)
# I/O thread turn: the channel is writable (bytes pending) and requests is empty -> unlocked flush
assert ch.requests == [] and ch.total_outbufs_len > 0
ch.handle_write()
sock.release.set(); w.join()
wire = b"".join(sock.sent)
n = wire.count(b"HTTP/1.1 100 Continue")
print("100 Continue on the wire:", n, "times; total_outbufs_len =", ch.total_outbufs_len)
bad = n != 1 or ch.total_outbufs_len != 0
print("RACE REPRODUCED" if bad else "ok")
sys.exit(1 if bad else 0)
