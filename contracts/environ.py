"""Contracts for C07: WSGITask.get_environment and the header fold of parse_header."""
import z3

from vlib.contract import *
from vlib.pyvc import NONE, VBool, VDict, VInt, VObj, VOpaque, VStr, VTuple
from vlib.builtins_model import strval, F_UPPER

CHM = "model.EnvChannel"
SRVM = "model.EnvServer"
PARSER = "parser.HTTPRequestParser"
SERVER_KEYS = ["REMOTE_ADDR", "REMOTE_HOST", "REMOTE_PORT", "REQUEST_METHOD", "SERVER_PORT", "SERVER_NAME", "SERVER_SOFTWARE", "SERVER_PROTOCOL", "SCRIPT_NAME",
               "PATH_INFO", "REQUEST_URI", "QUERY_STRING", "wsgi.url_scheme", "wsgi.version", "wsgi.errors", "wsgi.multithread", "wsgi.multiprocess", "wsgi.run_once",
               "wsgi.input", "wsgi.file_wrapper", "wsgi.input_terminated"]


def upper(eng, s):
    return VStr(F_UPPER(eng.force(s).t), False)


def env_get(eng, d, key):
    from contracts.proxy import _entry
    p, v = _entry(eng, d, key)
    return v


def env_has(eng, d, key):
    from contracts.proxy import _entry
    p, v = _entry(eng, d, key)
    return VBool(p)


class EnvHook:
    def on_dict_write(self, eng, d=None, key=None, val=None, node=None):
        fn = eng.cur_func
        if fn.endswith("get_environment"):
            env = eng.final_locals.get("environ")
            if isinstance(env, VDict) and env.did == d.did and val is not None:
                present = eng.dict_has(d, key, node)
                eng.oblige("%s/C07:a-key-already-defined-is-never-replaced" % fn, z3.Not(present),
                           clause="environ[k] = v happens only for a k not yet in environ (no client field overrides a server-defined variable, each field appears once)", kind="assert")
                v = eng.force(val)
                if isinstance(v, VStr):
                    eng.oblige("%s/C07:header-values-are-native-strings" % fn, z3.BoolVal(not v.bytes), clause="values copied from the request are str, not bytes", kind="assert")
        if fn.endswith("parse_header"):
            me = getattr(eng, "self_under_verification", None)
            hdrs = eng.state.heap.get((me.oid, "headers")) if me is not None else None
            if isinstance(hdrs, VDict) and hdrs.did == d.did and val is not None:
                k = eng.final_locals.get("key")
                if isinstance(k, VStr):
                    eng.oblige("%s/C07:names-with-underscore-are-dropped" % fn, z3.Not(z3.Contains(k.t, z3.StringVal("_"))),
                               clause="a header whose name contains '_' is never stored", kind="assert")
                    key1 = eng.force(key)
                    if isinstance(key1, VStr):
                        eng.oblige("%s/C07:stored-under-the-cgi-name" % fn, z3.Not(z3.Contains(key1.t, z3.StringVal("-"))),
                                   clause="the storage key contains no '-' (dashes become underscores)", kind="assert")
                    old_present, old_val = eng.dict_get(d, key, node)
                    v = eng.force(val)
                    if isinstance(old_val, VStr) and isinstance(v, VStr):
                        eng.oblige("%s/C07:repeated-fields-joined-with-comma-space" % fn,
                                   z3.Implies(old_present, z3.PrefixOf(z3.Concat(old_val.t, z3.StringVal(", ")), v.t)),
                                   clause="a repeated field is appended to the stored value after ', ' (arrival order)", kind="assert")


def install(reg):
    from contracts import adj, parser, receiver, buffers_abs
    adj.install(reg)
    buffers_abs.install(reg)
    receiver.install(reg)
    parser.install(reg)
    reg.install_std_specs()
    from contracts.task import final
    reg.spec_funcs.update({"upper": upper, "env_get": env_get, "env_has": env_has, "final": final})
    reg.add_class(ClassSpec(SRVM, fields={"adj": Obj("adjustments.Adjustments"), "effective_port": Int, "server_name": Str}))
    reg.add_class(ClassSpec(CHM, fields={"server": Obj(SRVM), "addr": TupleOf(Str, Int)},
                            env_methods={"check_client_disconnected": EnvSpec(returns=Bool)}))
    reg.add(FuncContract(PARSER + ".get_body_stream", returns=Opaque("stream"), assume_invariant=False))    # assumed accessor: needs nothing of the parser
    T = "task.WSGITask"
    reg.add_class(ClassSpec(T, fields={"environ": Opt(Opaque("environ")), "request": Obj(PARSER, lazy=True), "channel": Obj(CHM), "version": Str}))
    E = "environ"
    CL = [
        ("C07-request-method-is-the-upper-cased-method", "REQUEST_METHOD", "env_get(ENV, 'REQUEST_METHOD') == upper(self.request.command)"),
        ("C07-server-protocol-from-the-task-version", "SERVER_PROTOCOL", "env_get(ENV, 'SERVER_PROTOCOL') == 'HTTP/' + self.version"),
        ("C07-query-string-is-the-request-query", "QUERY_STRING", "env_get(ENV, 'QUERY_STRING') == self.request.query"),
        ("C07-script-name-is-the-url-prefix", "SCRIPT_NAME", "env_get(ENV, 'SCRIPT_NAME') == self.channel.server.adj.url_prefix"),
        ("C07-path-info-empty-when-path-is-the-prefix", "PATH_INFO", "implies(self.channel.server.adj.url_prefix != '' and self.request.path == self.channel.server.adj.url_prefix,"
                                                                     " env_get(ENV, 'PATH_INFO') == '')"),
        ("C07-path-info-is-a-suffix-of-the-decoded-path", "PATH_INFO", "self.request.path.endswith(env_get(ENV, 'PATH_INFO'))"),
        ("C07-prefix-plus-path-info-restores-the-path", "PATH_INFO", "implies(self.channel.server.adj.url_prefix != '' and self.request.path.startswith(self.channel.server.adj.url_prefix + '/'),"
                                                                     " self.channel.server.adj.url_prefix + env_get(ENV, 'PATH_INFO') == self.request.path)"),
        ("C07-path-info-is-the-whole-path-when-the-prefix-does-not-apply", "PATH_INFO",
         "implies(not self.request.path.startswith('//') and (self.channel.server.adj.url_prefix == '' or (self.request.path != self.channel.server.adj.url_prefix"
         " and not self.request.path.startswith(self.channel.server.adj.url_prefix + '/'))), env_get(ENV, 'PATH_INFO') == self.request.path)"),
        ("C07-leading-slashes-collapse-to-one", "PATH_INFO",
         "implies(self.request.path.startswith('//') and self.channel.server.adj.url_prefix == '',"
         " env_get(ENV, 'PATH_INFO').startswith('/') and not env_get(ENV, 'PATH_INFO').startswith('//'))"),
        ("C07-url-scheme-from-the-request", "wsgi.url_scheme", "env_get(ENV, 'wsgi.url_scheme') == self.request.url_scheme"),
        ("C07-remote-addr-is-the-peer", "REMOTE_ADDR", "env_get(ENV, 'REMOTE_ADDR') == self.channel.addr[0]"),
    ]
    ens = [(n, "env_has(final('environ'), %r) and (%s)" % (k, t.replace("ENV", "final('environ')"))) for n, k, t in CL]
    inv = [(n, "env_has(environ, %r) and (%s)" % (k, t.replace("ENV", "environ"))) for n, k, t in CL]
    inv.append(("C07-client-headers-only-add-HTTP_-or-CONTENT_-keys", "not env_has(environ, 'waitress.client_disconnected')"))
    reg.add(FuncContract(T + ".get_environment", requires=[("not-cached", "self.environ is None"),
                                                           ("url-prefix-shape", "self.channel.server.adj.url_prefix == '' or (self.channel.server.adj.url_prefix.startswith('/')"
                                                                                " and not self.channel.server.adj.url_prefix.startswith('//') and not self.channel.server.adj.url_prefix.endswith('/'))")],
        raises=[], ensures=ens, returns=None, loops={0: LoopSpec(invariants=inv)}))
    reg.funcs[T + ".get_environment"].unreachable_ok = ("return environ",)
    reg.funcs[T + ".get_environment"].frame_check = False


def attach(eng, reg, qual):
    from contracts.parser import ParserHook
    eng.hooks.append(EnvHook())
    eng.hooks.append(ParserHook())
