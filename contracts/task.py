"""Contracts for waitress/task.py (C03, C08, C09): Task / ErrorTask / WSGITask with a demonic application
and a model channel whose write_soon() records the bytes handed over (ghost `wire`)."""
import re

import z3

from vlib.contract import *
from vlib.pyvc import NONE, VBool, VInt, VList, VObj, VOpaque, VStr, VTuple
from vlib.builtins_model import strval

T = "task.Task"
CHM = "model.Channel"
SRVM = "model.TaskServer"
PARSER = "parser.HTTPRequestParser"

CRLF_FREE = lambda t: z3.And(z3.Not(z3.Contains(t, z3.StringVal("\r"))), z3.Not(z3.Contains(t, z3.StringVal("\n"))))
HOP = ("connection", "keep-alive", "proxy-authenticate", "proxy-authorization", "te", "trailer", "transfer-encoding", "upgrade")


def pred_hdr_ok(eng, x):
    """a response header entry: a 2-tuple of str, neither containing CR or LF"""
    if not (isinstance(x, VTuple) and len(x.items) == 2):
        return z3.BoolVal(False)
    k, v = eng.force(x.items[0]), eng.force(x.items[1])
    if not (isinstance(k, VStr) and isinstance(v, VStr) and not k.bytes and not v.bytes):
        return z3.BoolVal(False)
    return z3.And(CRLF_FREE(k.t), CRLF_FREE(v.t))


def pred_not_hop(eng, x):
    from vlib.builtins_model import F_LOWER
    if not (isinstance(x, VTuple) and len(x.items) == 2):
        return z3.BoolVal(False)
    k = eng.force(x.items[0])
    if not isinstance(k, VStr):
        return z3.BoolVal(False)
    return z3.And([F_LOWER(k.t) != z3.StringVal(h) for h in HOP])


def pred_not_cl(eng, x):
    """a header entry whose name is not Content-Length in any letter case"""
    from vlib.builtins_model import F_LOWER
    if not (isinstance(x, VTuple) and len(x.items) == 2):
        return z3.BoolVal(False)
    k = eng.force(x.items[0])
    if not isinstance(k, VStr):
        return z3.BoolVal(False)
    return F_LOWER(k.t) != z3.StringVal("content-length")


def pred_no_crlf(eng, x):
    x = eng.force(x)
    if not isinstance(x, VStr):
        return z3.BoolVal(False)
    return CRLF_FREE(x.t)


def no_crlf(eng, s):
    """None, or a string without CR and LF (no forking on None-ness)"""
    from vlib.pyvc import VNone, VOpt
    if isinstance(s, VOpt):
        inner = s.val
        if isinstance(inner, VStr):
            return VBool(z3.Or(s.none, CRLF_FREE(inner.t)))
        return VBool(s.none)
    if isinstance(s, VStr):
        return VBool(CRLF_FREE(s.t))
    return VBool(isinstance(s, VNone))


def has_body_spec(eng, task):
    st = eng.force(eng.getattr(task, "status")).t
    return VBool(z3.Not(z3.Or(z3.PrefixOf(z3.StringVal("1"), st), z3.PrefixOf(z3.StringVal("204"), st), z3.PrefixOf(z3.StringVal("304"), st))))


def chunk_of(eng, data):
    """chunked framing of one non-empty write: HEX(len) CRLF data CRLF  (HEX = upper-cased hex(len)[2:])"""
    from vlib.builtins_model import F_HEXDIGITS, F_UPPER
    d = eng.force(data)
    return VStr(z3.Concat(F_UPPER(F_HEXDIGITS(z3.Length(d.t))), z3.StringVal("\r\n"), d.t, z3.StringVal("\r\n")), True)


def writes(eng):
    return VInt(eng.state.ghost.get("writes", 0))


def final(eng, name):
    """final value of a local variable of the function under verification (None if never bound)"""
    return eng.final_locals.get(strval(name), NONE)


def wire_endswith(eng, ch, suffix):
    w = eng.state.heap[(eng.force(ch).oid, "wire")]
    return VBool(z3.SuffixOf(eng.force(suffix).t, w.t))


# ------------------------------------------------------------------ model channel
def ch_write_soon(eng, recv, args, result):
    data = eng.force(args[0])
    eng.state.ghost["writes"] = eng.state.ghost.get("writes", 0) + 1
    w = eng.state.heap[(recv.oid, "wire")]
    if isinstance(data, VStr):
        eng.state.heap[(recv.oid, "wire")] = VStr(z3.Concat(w.t, data.t), True)
        eng.state.ghost.setdefault("write_log", []).append(data)
        return VInt(z3.Length(data.t))
    eng.state.ghost["handed_over"] = data            # a file-wrapper buffer was handed to the channel
    return eng.fresh_int("n")


class TaskHook:
    def on_contract_raise(self, eng, exc=None, qual=None, node=None):
        if exc == "OSError" and eng.cur_func.split("@")[0].endswith("Task.service"):
            eng.state.ghost["oserror_in_service"] = True       # a socket error surfaced while the response was being produced

    def on_list_write(self, eng, lst=None, node=None, op=None, arg=None):
        # C03: a response head that announces Keep-Alive.  Recorded where the header pair is queued; the clause is on build_response_header
        if op == "append" and arg is not None and eng.cur_func.split("@")[0].endswith("build_response_header"):
            a = eng.force(arg)
            if isinstance(a, VTuple) and len(a.items) == 2:
                k, v = strval(eng.force(a.items[0])), strval(eng.force(a.items[1]))
                if k is not None and v is not None and k.lower() == "connection" and v.lower() == "keep-alive":
                    eng.state.ghost["keepalive_announced"] = True

    def on_join(self, eng, sep=None, lst=None, res=None, node=None):
        if strval(sep) == "\r\n":
            m = eng.state.lists[lst.lid]
            i = eng.fresh_int("line_idx")
            eng.assume(z3.And(i.t >= 0, i.t < (m.length if m.items is None else len(m.items))))
            w = eng.force(eng.index(lst, i))
            eng.oblige("%s/C08:head-lines-contain-no-cr-lf" % eng.cur_func, pred_no_crlf(eng, w),
                       clause="every line joined with CRLF into the response head is free of CR and LF (arbitrary line)", kind="assert")


T_FIELDS = {
    "channel": Obj(CHM), "request": Obj(PARSER, lazy=True), "response_headers": ListOf(TupleOf(Str, Str)), "version": Str, "status": Str,
    "wrote_header": Bool, "complete": Bool, "chunked_response": Bool, "close_on_finish": Bool, "content_length": Opt(Int),
    "content_bytes_written": Int, "start_time": Int, "logged_write_excess": Bool, "logged_write_no_body": Bool, "environ": Opt(Opaque("environ")),
}
T_INV = [
    ("head-only-after-start_response", "implies(self.wrote_header, self.complete)"),
    ("nothing-counted-before-the-head", "implies(not self.wrote_header, self.content_bytes_written == 0)"),
    ("counter-zero-without-declared-length", "implies(self.content_length is None and has_body(self), self.content_bytes_written == 0)"),
    ("C08-stored-headers-are-cr-lf-free-str-pairs", "all_elems(self.response_headers, 'hdr_ok')"),
    ("C08-status-has-no-cr-lf", "no_crlf(self.status)"),
    ("version-is-1.0-or-1.1", "self.version == '1.0' or self.version == '1.1'"),
    ("written-nonneg", "self.content_bytes_written >= 0"),
]


def install(reg):
    from contracts import adj, parser, receiver, buffers_abs
    adj.install(reg)
    buffers_abs.install(reg)
    receiver.install(reg)
    parser.install(reg)
    reg.classes[PARSER].fields["body_rcv"] = Opt(Opaque("receiver"))
    reg.classes[PARSER].invariants = []
    reg.install_std_specs()
    reg.elem_preds.update({"hdr_ok": pred_hdr_ok, "not_hop": pred_not_hop, "no_crlf": pred_no_crlf, "not_cl": pred_not_cl})
    reg.spec_funcs["oserror_in_service"] = lambda eng: VBool(bool(eng.state.ghost.get("oserror_in_service", False)))
    reg.spec_funcs["keepalive_announced"] = lambda eng: VBool(bool(eng.state.ghost.get("keepalive_announced", False)))
    reg.spec_funcs.update({"no_crlf": no_crlf, "has_body": has_body_spec, "wire_endswith": wire_endswith, "final": final, "chunk_of": chunk_of, "writes": writes})
    reg.add_class(ClassSpec(SRVM, fields={"adj": Obj("adjustments.Adjustments"), "application": Opaque("app")}))
    reg.add_class(ClassSpec(CHM, fields={"server": Obj(SRVM), "adj": Obj("adjustments.Adjustments"), "wire": Bytes, "connected": Bool, "addr": Opaque("addr")},
                            env_methods={"write_soon": EnvSpec(returns=Int, raises=["channel.ClientDisconnected"], effect=ch_write_soon)}))
    for c in (T, "task.ErrorTask", "task.WSGITask"):
        reg.add_class(ClassSpec(c, fields=dict(T_FIELDS), invariants=list(T_INV)))
    reg.add(FuncContract("utilities.build_http_date", params={"when": Int}, returns=Str1, ensures=[("no-cr-lf", "no_crlf(result)")]))
    IDENT = ("operator-ident-has-no-cr-lf", "no_crlf(self.channel.server.adj.ident)")

    reg.add(FuncContract("task.WSGITask.execute.<start_response>", closure_self="task.WSGITask", result_is="self.write",
        params={"status": OneOf(Str, Opaque("nonstr")),
                "headers": ListOf(TupleOf(OneOf(Str, Opaque("nonstr")), OneOf(Str, Opaque("nonstr")))),
                "exc_info": Opt(TupleOf(Opaque("exctype"), Opaque("excvalue"), Opaque("tb")))},
        raises=["AssertionError", "ValueError", "BaseException:opaque"],
        ensures=[("C08-stored-list-is-not-the-applications-list", "self.response_headers is not headers"),
                 ("C08-no-hop-by-hop-header-accepted", "all_elems(headers, 'not_hop')"),
                 ("complete", "self.complete"),
                 ("accepted-only-before-the-head-is-sent", "not self.wrote_header"),
                 ("declared-length-is-the-headers-value", "implies(self.content_length is not None and old(self.content_length) is None, True)")],
        modifies=["self.complete", "self.status", "self.response_headers", "self.content_length"],
        loops={0: LoopSpec(invariants=[("true", "True")], establishes=["hdr_ok", "not_hop"])}))

    reg.add(FuncContract(T + ".has_body", returns=Bool, ensures=[("definition", "result == has_body(self)")]))
    reg.add(FuncContract(T + ".set_close_on_finish",
        ensures=[("closes", "self.close_on_finish")],
        loops={0: LoopSpec(invariants=[("true", "True")])},
        modifies=["self.close_on_finish", "self.response_headers"]))

    CLREQ = ("declared-length-sane", "implies(self.content_length is not None, self.content_length >= 0 and (not has_body(self) or self.content_bytes_written <= self.content_length))")
    reg.add(FuncContract(T + ".write", params={"data": Bytes}, requires=[IDENT, CLREQ],
        raises=["RuntimeError", "channel.ClientDisconnected", "UnicodeEncodeError"],
        ensures=[
            ("head-sent-first", "self.wrote_header"),
            ("C03-close-decision-kept", "implies(old(self.close_on_finish), self.close_on_finish)"),
            CLREQ,
            ("C03-chunk-framing", "implies(old(self.wrote_header) and self.chunked_response and has_body(self) and len(data) > 0,"
                                  " self.channel.wire == old(self.channel.wire) + chunk_of(data))"),
            ("C03-body-cut-at-declared-length", "implies(old(self.wrote_header) and not self.chunked_response and has_body(self) and self.content_length is not None,"
                                                " self.channel.wire == old(self.channel.wire) + data[:self.content_length - old(self.content_bytes_written)]"
                                                " and self.content_bytes_written == old(self.content_bytes_written) + min(len(data), self.content_length - old(self.content_bytes_written)))"),
            ("C03-close-delimited-body-verbatim", "implies(old(self.wrote_header) and not self.chunked_response and has_body(self) and self.content_length is None,"
                                                  " self.channel.wire == old(self.channel.wire) + data)"),
            ("C03-no-body-bytes-for-bodyless-status", "implies(old(self.wrote_header) and not has_body(self), self.channel.wire == old(self.channel.wire))"),
            ("length-counter-untouched-without-declared-length", "implies(has_body(self) and (self.chunked_response or self.content_length is None),"
                                                                 " self.content_bytes_written == old(self.content_bytes_written))"),
            ("length-counter-counts-ignored-bytes", "implies(not has_body(self), self.content_bytes_written == old(self.content_bytes_written) + len(data))"),
            ("empty-write-sends-nothing", "implies(old(self.wrote_header) and len(data) == 0, self.channel.wire == old(self.channel.wire))"),
        ],
        ensures_exc=[("nothing-sent-if-head-cannot-be-built", "implies(not old(self.wrote_header) and not self.wrote_header, self.channel.wire == old(self.channel.wire))")],
        modifies=["self.wrote_header", "self.content_bytes_written", "self.logged_write_excess", "self.logged_write_no_body", "self.response_headers",
                  "self.close_on_finish", "self.chunked_response", "self.channel.wire"]))
    reg.add(FuncContract(T + ".finish", requires=[IDENT, CLREQ], raises=["RuntimeError", "channel.ClientDisconnected", "UnicodeEncodeError"],
        ensures=[("head-sent", "self.wrote_header"), ("C03-close-decision-kept", "implies(old(self.close_on_finish), self.close_on_finish)"),
                 ("C03-chunked-body-terminated", "implies(self.chunked_response and self.request.command != 'HEAD', wire_endswith(self.channel, b'0\\r\\n\\r\\n'))"),
                 ("C03-HEAD-response-has-no-body-bytes", "implies(old(self.wrote_header) and self.request.command == 'HEAD', self.channel.wire == old(self.channel.wire))")],
        modifies=["self.wrote_header", "self.content_bytes_written", "self.logged_write_excess", "self.logged_write_no_body", "self.response_headers",
                  "self.close_on_finish", "self.chunked_response", "self.channel.wire"]))
    reg.add(FuncContract(T + ".start", modifies=["self.start_time"]))
    reg.add(FuncContract(T + ".execute", raises=["channel.ClientDisconnected", "Exception", "BaseException:opaque", "OSError"],
        requires=[IDENT], ensures=[CLREQ],
        modifies=["self.wrote_header", "self.content_bytes_written", "self.response_headers", "self.close_on_finish", "self.chunked_response",
                  "self.channel.wire", "self.status", "self.complete", "self.content_length"]))
    reg.add(FuncContract(T + ".service", requires=[IDENT], raises=["channel.ClientDisconnected", "Exception", "BaseException:opaque", "OSError", "RuntimeError", "UnicodeEncodeError"],
        # whether the error is re-raised (log_socket_errors) or swallowed, the connection is not reused after it
        ensures=[("C09-a-socket-error-during-the-response-closes-the-connection", "implies(oserror_in_service(), self.close_on_finish)")],
        ensures_exc=[("C03-socket-error-closes", "implies(isinstance(exc, OSError), self.close_on_finish)")]))

    install_execute(reg, IDENT, CLREQ)

    # clauses of C03 over the decision variables of build_response_header (locals: content_length_header, connection)
    FCL = [
        ("C03-F2-chunked-iff-1.1-body-without-length", "self.chunked_response == (old(self.chunked_response) or (self.version == '1.1' and has_body(self) and not content_length_header))"),
        ("C03-F1-undelimited-body-closes", "implies(has_body(self) and not self.chunked_response and not content_length_header, self.close_on_finish)"),
        ("C03-F4-keepalive-1.0-has-length", "implies(self.version == '1.0' and not self.close_on_finish, bool(content_length_header))"),
        ("C03-F5-no-body-no-chunking", "implies(not has_body(self) and not old(self.chunked_response), not self.chunked_response)"),
        ("C03-1.0-without-keepalive-closes", "implies(self.version == '1.0' and connection != 'keep-alive', self.close_on_finish)"),
        ("C03-1.1-connection-close-closes", "implies(self.version == '1.1' and connection == 'close', self.close_on_finish)"),
        ("C03-close-decision-kept", "implies(old(self.close_on_finish), self.close_on_finish)"),
        # "a response that announces Keep-Alive (HTTP/1.0) is followed by normal service of the next request": never announced on a response
        # after which the connection is closed (whoever took the close decision: this function, the parser, or the task before the head was built)
        ("C03-keep-alive-is-announced-only-when-the-connection-is-kept", "implies(keepalive_announced(), not self.close_on_finish)"),
        ("C01-F7-parser-close-decision-honoured", "implies(self.request.connection_close, self.close_on_finish)"),
    ]
    LOCALS = {"must_close": Bool, "version": Str, "connection": Str, "content_length_header": Opt(Str), "date_header": Opt(Str), "server_header": Opt(Str)}
    HDR_LOCALS_OK = [("C08-collected-header-values-have-no-cr-lf", "no_crlf(content_length_header) and no_crlf(date_header) and no_crlf(server_header)"),
                     ("version-local", "version == self.version"), ("must-close-is-the-parsers-decision", "must_close == self.request.connection_close")]

    def as_final(text):
        import re
        for nm in ("content_length_header", "connection"):
            text = re.sub(r"(?<![.\w])%s(?!\w)" % nm, "final('%s')" % nm, text)
        return text
    brh = reg.add(FuncContract(T + ".build_response_header", returns=Bytes, requires=[IDENT], raises=["UnicodeEncodeError"],
        ensures=[(n, as_final(t)) for n, t in FCL],
        loops={0: LoopSpec(invariants=[("C08-rebuilt-headers-wellformed", "all_elems(response_headers, 'hdr_ok')")] + HDR_LOCALS_OK[:1],
                           types={"response_headers": ListOf(TupleOf(Str, Str)), "content_length_header": Opt(Str), "date_header": Opt(Str), "server_header": Opt(Str)})},
        modifies=["self.response_headers", "self.close_on_finish", "self.chunked_response"]))
    brh.unreachable_ok = ('raise AssertionError("neither HTTP/1.0 or HTTP/1.1")',)
    # `must_close` is a helper local of the current code (it caches request.connection_close); no property clause mentions it
    brh.cuts = [
        Cut('if version == "1.0":', HDR_LOCALS_OK + [("C03-flags-untouched-so-far", "self.chunked_response == old(self.chunked_response) and self.close_on_finish == old(self.close_on_finish)")], LOCALS, optional=["must_close"]),
        Cut("ident = self.channel.server.adj.ident", HDR_LOCALS_OK + FCL, LOCALS, optional=["must_close"]),
        Cut("first_line = f", FCL, LOCALS, optional=["must_close"]),
    ]


ERRS = ["utilities.BadRequest", "utilities.RequestHeaderFieldsTooLarge", "utilities.RequestEntityTooLarge", "utilities.ServerNotImplemented",
        "utilities.InternalServerError"]
SR = "task.WSGITask.execute.<start_response>"
SR_TYPES = dict(status=OneOf(Str, Opaque("nonstr")),
                headers=ListOf(TupleOf(OneOf(Str, Opaque("nonstr")), OneOf(Str, Opaque("nonstr")))))


def app_call_start_response(eng, sr, fr, node, first):
    from vlib.builtins_model import call_value
    status = eng.fresh_of_type(SR_TYPES["status"], "app_status")
    headers = eng.fresh_of_type(SR_TYPES["headers"], "app_headers")
    exc_info = NONE if first else eng.fresh_of_type(Opt(TupleOf(Opaque("exctype"), Opaque("excvalue"), Opaque("tb"))), "app_exc_info")
    r = call_value(eng, sr, [status, headers, exc_info], {}, node, fr)
    # application precondition taken from the property statement: a Content-Length it declares is 1*DIGIT (non-negative)
    task = sr.frame.self_val
    cl = eng.state.heap.get((task.oid, "content_length"))
    from vlib.pyvc import VOpt
    if isinstance(cl, VOpt):
        eng.assume(z3.Or(cl.none, cl.val.t >= 0))
    elif isinstance(cl, VInt):
        eng.assume(cl.t >= 0)
    return r


def app_effect(eng, recv, args, result):
    """demonic WSGI application: calls start_response 0..2 times (second time with or without exc_info), may use the
    write callable, may raise anything at any point, returns a file wrapper or an arbitrary iterable"""
    from vlib.builtins_model import call_value
    from vlib.pyvc import RaiseSig, VExc
    sr = args[1]
    eng.state.ghost["app_sr"] = sr
    n = eng.choose(3, "app_sr_calls")
    writer = None
    for k in range(n):
        writer = app_call_start_response(eng, sr, None, None, k == 0)
    if writer is not None and eng.choose(2, "app_writes") == 0:
        call_value(eng, writer, [eng.fresh_str("app_written", True)], {}, None, None)
    if eng.choose(2, "app_raises") == 0:
        raise RaiseSig(VExc("BaseException:opaque"))
    eng.state.ghost["app_returned"] = True
    if eng.choose(2, "app_returns_filewrapper") == 0:
        o = eng.fresh_of_type(Obj("buffers.ReadOnlyFileBasedBuffer", lazy=True), "app_filewrapper")
        eng.state.ghost["app_iter"] = o
        return o
    it = VOpaque("app_iter")
    it.types = frozenset()          # an arbitrary iterable that is not a ReadOnlyFileBasedBuffer
    eng.state.ghost["app_iter"] = it
    return it


def iter_before_next(eng, it, fr):
    # PEP 3333: start_response may be called as late as the first iteration
    sr = eng.state.ghost.get("app_sr")
    if sr is not None and eng.choose(2, "late_start_response") == 0:
        app_call_start_response(eng, sr, None, None, True)


def close_effect(eng, recv, args, result):
    eng.state.ghost["closes"] = eng.state.ghost.get("closes", 0) + 1
    return NONE


def closes(eng):
    return VInt(eng.state.ghost.get("closes", 0))


def app_returned(eng):
    return VBool(bool(eng.state.ghost.get("app_returned", False)))


def handed_over(eng):
    return VBool("handed_over" in eng.state.ghost)


def iter_has_close(eng):
    it = eng.state.ghost.get("app_iter")
    if isinstance(it, VObj):
        return VBool(True)
    cache = eng.state.ghost.get("hasattr", {})
    v = cache.get((id(it), "close"))
    return VBool(v) if v is not None else VBool(False)


class CloseHook:
    def on_contract_call(self, eng, con=None, env=None, site=None, node=None, frame=None):
        if con.qual.endswith(".close") and env.get("self") is eng.state.ghost.get("app_iter"):
            eng.state.ghost["closes"] = eng.state.ghost.get("closes", 0) + 1


def install_execute(reg, IDENT, CLREQ):
    reg.spec_funcs.update({"closes": closes, "app_returned": app_returned, "handed_over": handed_over, "iter_has_close": iter_has_close})
    reg.classes[PARSER].fields["error"] = Opt(OneOf(*[Obj(e) for e in ERRS]))
    reg.inline.update({"utilities.Error.to_response", "buffers.FileBasedBuffer.__len__"})
    reg.demonic["call:app"] = EnvSpec(returns=None, effect=app_effect)
    it_spec = EnvSpec(returns=Bytes)
    it_spec.before_next = iter_before_next
    reg.demonic["iter:app_iter"] = it_spec
    reg.demonic["iter:obj:buffers.ReadOnlyFileBasedBuffer"] = EnvSpec(returns=Bytes)
    cl = EnvSpec(returns=None, raises=["BaseException:opaque"], effect=close_effect)
    cl.effect_first = True
    reg.demonic["app_iter.close"] = cl
    reg.add_class(ClassSpec("buffers.ReadOnlyFileBasedBuffer", fields={"remain": Int}, inherit=False))
    reg.add(FuncContract("buffers.ReadOnlyFileBasedBuffer.prepare", params={"size": Opt(Int)}, returns=Int,
        requires=[("size-nonneg", "size is None or size >= 0")],
        ensures=[("returns-remain", "result == self.remain"), ("never-more-than-asked", "implies(size is not None and result > 0, result <= size)"),
                 ("nonneg", "result >= 0")],
        modifies=["self.remain"]))
    reg.add(FuncContract("buffers.FileBasedBuffer.close", modifies=["self.remain"], check_invariant=False))
    reg.add(FuncContract("task.WSGITask.get_environment", returns=Opaque("environ")))
    reg.add(FuncContract(T + ".remove_content_length_header", loops={0: LoopSpec(invariants=[("C08-kept-headers-wellformed", "all_elems(response_headers, 'hdr_ok')"),
                                                                                             ("C03-no-content-length-among-the-kept-headers", "all_elems(response_headers, 'not_cl')")],
                                                                                 types={"response_headers": ListOf(TupleOf(Str, Str))})},
                         # whatever the application's spelling of the field name: a stale Content-Length next to the real framing corrupts the stream
                         ensures=[("C03-no-content-length-header-left-in-any-letter-case", "all_elems(self.response_headers, 'not_cl')")],
                         modifies=["self.response_headers"]))

    reg.add(FuncContract("task.ErrorTask.execute", requires=[IDENT, ("has-error", "self.request.error is not None"), ("fresh", "not self.wrote_header and self.complete"),
                                                             ("no-length-yet", "self.content_length is None and self.content_bytes_written == 0")],
        raises=["channel.ClientDisconnected", "UnicodeEncodeError", "RuntimeError"],
        ensures=[("C06-error-response-closes", "self.close_on_finish"), ("head-sent", "self.wrote_header"),
                 ("C06-exact-length", "self.content_length == len(final('body'))"),
                 ("C06-status-is-an-error-code", "self.status[:3] in ('400', '413', '431', '500', '501')"),
                 CLREQ]))

    ex = reg.add(FuncContract("task.WSGITask.execute", requires=[IDENT, CLREQ, ("fresh-task", "not self.wrote_header and not self.complete and self.content_length is None"
                                                                                   " and self.content_bytes_written == 0 and closes() == 0")],
        raises=["channel.ClientDisconnected", "BaseException:opaque", "AssertionError", "ValueError", "RuntimeError", "UnicodeEncodeError", "TypeError"],
        ensures=[("C09-iterable-closed-exactly-once", "closes() == (1 if (iter_has_close() and not handed_over()) else 0)"),
                 ("C03-short-body-closes", "implies(self.content_length is not None and self.content_bytes_written != self.content_length"
                                           " and self.request.command != 'HEAD' and not handed_over(), self.close_on_finish)"),
                 CLREQ],
        ensures_exc=[("C09-iterable-closed-exactly-once", "implies(app_returned(), closes() == (1 if (iter_has_close() and not handed_over()) else 0))"),
                     ("C09-never-closed-twice", "closes() <= 1")],
        modifies=["self.wrote_header", "self.content_bytes_written", "self.response_headers", "self.close_on_finish", "self.chunked_response",
                  "self.channel.wire", "self.status", "self.complete", "self.content_length", "self.logged_write_excess", "self.logged_write_no_body",
                  "self.environ"],
        loops={0: LoopSpec(invariants=[("C09-not-closed-during-iteration", "closes() == 0"), CLREQ, ("C09-not-handed-over", "not handed_over()")] + T_INV,
                           types={"first_chunk_len": Opt(Int)})}))

    def seg2_init(eng, fr):
        # the application has returned an iterable: either a file wrapper or an arbitrary iterable
        from vlib.pyvc import VFunc
        task = fr.env["self"]
        eng.state.ghost["app_returned"] = True
        eng.state.ghost["closes"] = 0
        fn = eng.repo.find(SR)
        sr = VFunc("closure", node=fn, frame=fr, name=SR, modname="task")
        fr.env["start_response"] = sr
        eng.state.ghost["app_sr"] = sr
        if eng.choose(2, "app_returns_filewrapper") == 0:
            it = eng.fresh_of_type(Obj("buffers.ReadOnlyFileBasedBuffer", lazy=True), "app_filewrapper")
        else:
            it = VOpaque("app_iter")
            it.types = frozenset()
        eng.state.ghost["app_iter"] = it
        fr.env["app_iter"] = it
    # the first statement after the application call, however the flag is initialised
    ex.cuts = [Cut(re.compile(r"^can_close_app_iter\s*="), [CLREQ, ("C09-not-closed-yet", "closes() == 0"), ("C09-not-handed-over", "not handed_over()"),
                                                 ("application-returned", "app_returned()")],
                   {"environ": Opaque("environ")}, init=seg2_init)]


def attach(eng, reg, qual):
    eng.hooks.append(CloseHook())
    eng.hooks.append(TaskHook())
