"""The wake-up channel itself (trigger.py): every pull_trigger() call reaches the pipe / loopback socket -- the I/O loop's wake-up is
level-triggered on that byte, so a pull that is "optimised away" is a lost wake-up (C05)."""
from vlib.contract import *
from vlib.monitor import LOCK, MonitorHook, MonitorSpec, install_threading

T = "trigger._triggerbase"


def pulls(eng):
    from vlib.pyvc import VInt
    return VInt(eng.state.ghost.get("physical_pulls", 0))


class TriggerHook:
    def on_env_call(self, eng, name=None, recv=None, args=None, node=None, frame=None, spec=None):
        if name.endswith("_physical_pull"):
            eng.state.ghost["physical_pulls"] = eng.state.ghost.get("physical_pulls", 0) + 1


def attach(eng, reg, qual):
    def me(e):
        return getattr(e, "self_under_verification", None)
    eng.hooks.append(MonitorHook(reg.monitors, me))
    eng.hooks.append(TriggerHook())


def install(reg):
    reg.install_std_specs()
    reg.spec_funcs.update({"pulls": pulls})
    install_threading(reg, lambda eng: next((h for h in eng.hooks if isinstance(h, MonitorHook)), None))
    reg.add_class(ClassSpec(T, fields={"lock": Obj(LOCK), "thunks": ListOf(Opaque("thunk")), "_closed": Bool},
                            env_methods={"_physical_pull": EnvSpec(returns=None)}))
    reg.monitors = [MonitorSpec("lock", ["thunks"], [], name="lock")]
    reg.add(FuncContract(T + ".pull_trigger", params={"thunk": Opt(Opaque("thunk"))}, raises=[],
        ensures=[("C05-every-pull-writes-a-wake-up", "pulls() == 1")]))
