"""Adjustments as a bag of symbolic settings (every configuration)."""
from vlib.contract import *


def install(reg):
    reg.add_class(ClassSpec("adjustments.Adjustments", fields={
        "max_request_header_size": Int, "max_request_body_size": Int, "inbuf_overflow": Int, "outbuf_overflow": Int,
        "outbuf_high_watermark": Int, "send_bytes": Int, "recv_bytes": Int, "url_scheme": Str, "url_prefix": Str,
        "channel_request_lookahead": Int, "log_socket_errors": Bool, "expose_tracebacks": Bool, "ident": Opt(Str),
        "connection_limit": Int, "cleanup_interval": Int, "channel_timeout": Int,
    }))
