"""Abstract (client-side) contracts of the buffer classes: a FIFO byte queue `view`.
These are exactly the clauses C17 proves for the real methods against the file model."""
from vlib.contract import *


def install(reg):
    for cls in ("buffers.OverflowableBuffer",):
        reg.add_class(ClassSpec(cls, fields={"view": Bytes, "closed": Bool}))
        reg.add(FuncContract(cls + ".__init__", params={"overflow": Int}, fresh_self=True,
                             ensures=[("empty", "self.view == b''"), ("open", "not self.closed")], modifies=["self.view", "self.closed"]))
        reg.add(FuncContract(cls + ".append", params={"s": Bytes},
                             ensures=[("fifo", "self.view == old(self.view) + s")], modifies=["self.view"]))
        reg.add(FuncContract(cls + ".__len__", returns=Int, ensures=[("len", "result == len(self.view)")]))
        reg.add(FuncContract(cls + ".__bool__", returns=Bool, ensures=[("nonempty", "result == (len(self.view) > 0)")]))
        reg.add(FuncContract(cls + ".close", raises=["Exception"], ensures=[("closed", "self.closed")], modifies=["self.closed"]))
        reg.add(FuncContract(cls + ".getfile", returns=Opaque("file")))
        reg.add(FuncContract(cls + ".get", params={"numbytes": Int, "skip": Bool}, returns=Bytes,
                             requires=[("numbytes-ge-minus1", "numbytes >= -1")],
                             ensures=[("prefix", "old(self.view).startswith(result)"),
                                      ("enough", "implies(numbytes >= 0, len(result) >= min(numbytes, len(old(self.view))))"),
                                      ("all", "implies(numbytes < 0, result == old(self.view))"),
                                      ("nonempty", "implies(len(old(self.view)) > 0 and numbytes != 0, len(result) > 0)"),
                                      ("peek", "implies(not skip, self.view == old(self.view))"),
                                      ("consume", "implies(skip, old(self.view) == result + self.view)")],
                             modifies=["self.view"]))
        reg.add(FuncContract(cls + ".skip", params={"numbytes": Int, "allow_prune": Bool},
                             requires=[("nonneg", "numbytes >= 0")],
                             raises_when=[("ValueError", "numbytes > len(self.view)")],
                             ensures=[("drop", "self.view == old(self.view)[numbytes:]")], modifies=["self.view"]))
