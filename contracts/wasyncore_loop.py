"""Event dispatch of the I/O loop (wasyncore.read / write / _exception): a fault inside one channel's handler is contained --
nothing but the deliberate loop-control exceptions escapes, and the faulty channel's handle_error() runs (it closes that channel)."""
from vlib.contract import *

OBJ = "model.Dispatcher"
# what an event handler may raise: ordinary errors, a BaseException that is not loop control (GeneratorExit stands for those), and the three
# loop-control exceptions the dispatch functions deliberately let through
ANY = ["Exception", "OSError", "ValueError", "GeneratorExit", "KeyboardInterrupt", "SystemExit", "wasyncore.ExitNow"]


def handled(eng):
    from vlib.pyvc import VInt
    return VInt(eng.state.ghost.get("handle_error_calls", 0))


def handler_raised(eng):
    from vlib.pyvc import VBool
    return VBool(bool(eng.state.ghost.get("handler_raised", False)))


class LoopHook:
    def on_env_call(self, eng, name=None, recv=None, args=None, node=None, frame=None, spec=None):
        if name.endswith("handle_error"):
            eng.state.ghost["handle_error_calls"] = eng.state.ghost.get("handle_error_calls", 0) + 1

    def on_env_raise(self, eng, tag=None, exc=None, node=None):
        if tag and tag.endswith("_event"):
            eng.state.ghost["handler_raised"] = exc


def handler_fault(eng):
    from vlib.pyvc import VBool
    e = eng.state.ghost.get("handler_raised")
    return VBool(e in ("Exception", "OSError", "ValueError", "GeneratorExit"))


def attach(eng, reg, qual):
    eng.hooks.append(LoopHook())


def install(reg):
    reg.install_std_specs()
    reg.spec_funcs.update({"handled": handled, "handler_fault": handler_fault})
    ev = EnvSpec(returns=None, raises=ANY)
    reg.add_class(ClassSpec(OBJ, fields={}, env_methods={
        "handle_read_event": ev, "handle_write_event": ev, "handle_expt_event": ev,
        # handle_error() logs and closes the channel; closing the descriptor may itself fail
        "handle_error": EnvSpec(returns=None, raises=["OSError"]), "handle_close": EnvSpec(returns=None, raises=["OSError"])}))
    for fn in ("read", "write", "_exception"):
        reg.add(FuncContract("wasyncore." + fn, params={"obj": Obj(OBJ)},
            raises=["KeyboardInterrupt", "SystemExit", "wasyncore.ExitNow", "OSError"],
            ensures=[("C13-at-most-one-error-handling-per-event", "handled() <= 1"),
                     ("C13-a-faulty-handler-gets-its-channel-closed", "implies(handler_fault(), handled() == 1)"),
                     ("C13-no-error-handling-without-a-fault", "implies(not handler_fault(), handled() == 0)")],
            ensures_exc=[("C13-a-fault-is-never-passed-on-as-is", "implies(handler_fault(), handled() == 1)")]))
