"""Contracts for waitress/channel.py: sequential clauses + thread discipline (DESIGN section 5).

Roles: every function is verified once per role (IO = the asyncore loop thread, W = the worker that owns the
connection while `requests` is non-empty) that can reach it.  Locks: requests_lock (monitor `req`) and
outbuf_lock (monitor `out`, a Condition).  Ghost flags: pulled (server.pull_trigger() called since the last
wait), notified (outbuf_lock.notify() called), tasks_added.
"""
import z3

from vlib.contract import *
from vlib.monitor import COND, LOCK, MonitorHook, MonitorSpec, install_threading, lock_of
from vlib.pyvc import NONE, VBool, VInt, VList, VObj, VSeq, VStr
from vlib.builtins_model import elem_id

CH = "channel.HTTPChannel"
SERVER = "model.Server"
PARSER = "parser.HTTPRequestParser"
OB = "buffers.OverflowableBuffer"

D = "(self.will_close or self.close_when_flushed)"


# ------------------------------------------------------------------ spec functions
def role_is(eng, name):
    from vlib.builtins_model import strval
    return VBool((eng.role or "").rstrip("L") == strval(name))


def ghost_flag(name):
    def fn(eng):
        v = eng.state.ghost.get(name, False)
        return VBool(v if z3.is_expr(v) else bool(v))
    return fn


def ghost_int(name):
    def fn(eng):
        return VInt(eng.state.ghost.get(name, 0))
    return fn


def holds(eng, lockfield):
    from vlib.builtins_model import strval
    me = eng.self_under_verification
    lk = lock_of(eng, eng.state.heap[(me.oid, strval(lockfield))])
    return VBool(eng.state.ghost.setdefault("held", {}).get(lk.oid, 0) > 0)


def notified(eng, condfield):
    from vlib.builtins_model import strval
    me = eng.self_under_verification
    c = eng.state.heap[(me.oid, strval(condfield))]
    return VBool(bool(eng.state.ghost.get("notified:%d" % c.oid, False)))


def acquired(eng, condfield):
    from vlib.builtins_model import strval
    me = eng.self_under_verification
    c = eng.state.heap[(me.oid, strval(condfield))]
    return VBool(bool(eng.state.ghost.get("acquired:%d" % c.oid, False)))


def seq(eng, lst):
    lst = eng.force(lst)
    m = eng.state.lists[lst.lid]
    return VSeq(m.seq)


# ------------------------------------------------------------------ server model
def srv_add_task(eng, recv, args, result):
    me = eng.self_under_verification
    eng.state.ghost["tasks_added"] = eng.state.ghost.get("tasks_added", 0) + 1
    if me is not None and me.cls == CH:
        wc = eng.truth(eng.state.heap[(me.oid, "will_close")])
        cf = eng.truth(eng.state.heap[(me.oid, "close_when_flushed")])
        conn = eng.truth(eng.state.heap[(me.oid, "connected")])
        eng.oblige("%s/R6:no-dispatch-after-close-decision" % eng.cur_func, z3.And(z3.Not(wc), z3.Not(cf)),
                   clause="server.add_task(channel) only while neither will_close nor close_when_flushed is set", kind="discipline")
        if eng.role == "W":
            eng.oblige("%s/R6:no-dispatch-when-disconnected" % eng.cur_func, conn,
                       clause="a worker re-dispatches the connection only while connected", kind="discipline")
        lk = lock_of(eng, eng.state.heap[(me.oid, "requests_lock")])
        held = eng.state.ghost.setdefault("held", {}).get(lk.oid, 0) > 0
        eng.oblige("%s/R6:dispatch-decided-under-requests_lock" % eng.cur_func, z3.BoolVal(held),
                   clause="the dispatch decision is taken with requests_lock held", kind="discipline")
    return NONE


def srv_pull(eng, recv, args, result):
    eng.state.ghost["pulled"] = True
    return NONE


class ChannelHook:
    """ghost bookkeeping + role frames (R4) + wait/wake discipline (R5)"""
    TEARDOWN = {"handle_close", "close", "del_channel", "add_channel"}

    def on_call(self, eng, qual=None, args=None, kwargs=None, node=None, frame=None):
        name = qual.split(".")[-1]
        if name == "close" and args and isinstance(eng.force(args[0]), VObj):
            pend = dict(eng.state.ghost.get("removed_unclosed", {}))
            pend.pop(eng.force(args[0]).oid, None)
            eng.state.ghost["removed_unclosed"] = pend
        me0 = getattr(eng, "self_under_verification", None)
        if name in ("_flush_some", "_flush_some_if_lockable") and eng.cur_func.split("@")[0].endswith(".handle_write"):
            # C12/C13: it is the I/O thread's flush that notices a dead client and tears the channel down (which releases a paused producer)
            eng.state.ghost["io_flush_attempted"] = True
            dc = (kwargs or {}).get("do_close")
            if dc is None and args and len(args) > 1:
                dc = args[1]
            eng.oblige("%s/C12-the-io-thread-flush-may-tear-down-a-dead-connection" % eng.cur_func,
                       eng.truth(eng.force(dc)) if dc is not None else z3.BoolVal(True),
                       clause="handle_write() flushes with do_close true", kind="assert")
        if (name == "append" and qual.startswith("buffers.") and args and isinstance(eng.force(args[0]), VObj) and me0 is not None and me0.cls == CH
                and eng.cur_func.split("@")[0].endswith("send_continue")):
            # C19: the interim response goes BEHIND everything already queued, i.e. into the last output buffer
            ob = eng.state.heap.get((me0.oid, "outbufs"))
            if isinstance(ob, VList):
                last = eng.force(eng.list_index(ob, VInt(z3.IntVal(-1)), node))
                eng.oblige("%s/C19-interim-response-is-queued-behind-all-pending-output" % eng.cur_func, eng.identical(eng.force(args[0]), last),
                           clause="the buffer send_continue() appends to is self.outbufs[-1]", kind="assert")
        if name == "append" and qual.startswith("buffers.") and me0 is not None and me0.cls == CH and eng.cur_func.split("@")[0].endswith("send_continue") and len(args) > 1:
            tot = eng.force(eng.state.heap[(me0.oid, "total_outbufs_len")])
            data = eng.force(args[1])
            if isinstance(tot, VInt) and isinstance(data, VStr):
                eng.state.ghost["interim_expected_total"] = tot.t + z3.Length(data.t)
        if name == "_flush_some" and me0 is not None and me0.cls == CH and eng.cur_func.split("@")[0].endswith("send_continue"):
            exp = eng.state.ghost.get("interim_expected_total")
            tot = eng.force(eng.state.heap[(me0.oid, "total_outbufs_len")])
            eng.oblige("%s/C19-the-interim-line-is-counted-in-the-backlog" % eng.cur_func,
                       (tot.t == exp) if exp is not None else z3.BoolVal(False),
                       clause="when send_continue() flushes, total_outbufs_len == (its value before the append) + len(interim line)", kind="assert")
        if name == "received" and qual.split(".")[0] == "channel":
            eng.state.ghost["received_called"] = True
        if eng.role == "W" and name in self.TEARDOWN and qual.split(".")[0] in ("channel", "wasyncore"):
            eng.oblige("%s/R4:no-teardown-on-worker:%s" % (eng.cur_func, name), z3.BoolVal(False),
                       clause="a worker never calls %s (socket map / descriptors change only on the I/O thread)" % name, kind="discipline")

    def on_cv_wait(self, eng, cond=None):
        me = getattr(eng, "self_under_verification", None)
        if me is not None and me.cls == CH and eng.cur_func.split("@")[0].endswith("_flush_outbufs_below_high_watermark"):
            # C05/C12: a producer goes to sleep only while there really is a backlog above the mark on a live connection -- otherwise nobody
            # will ever notify it (the channel is not even writable when the backlog is empty)
            tot = eng.force(eng.state.heap[(me.oid, "total_outbufs_len")])
            adj = eng.force(eng.state.heap[(me.oid, "adj")])
            hw = eng.force(eng.getattr(adj, "outbuf_high_watermark"))
            conn = eng.truth(eng.force(eng.state.heap[(me.oid, "connected")]))
            wc = eng.truth(eng.force(eng.state.heap[(me.oid, "will_close")]))
            # (after a failed flush the producer waits once for the I/O thread's teardown, which notifies: will_close is set then)
            eng.oblige("%s/C05-a-producer-sleeps-only-while-the-backlog-is-above-the-mark" % eng.cur_func, z3.Or(wc, z3.And(conn, tot.t > hw.t)),
                       clause="outbuf_lock.wait() only with (self.connected and self.total_outbufs_len > adj.outbuf_high_watermark) or self.will_close", kind="discipline")
        pulled = eng.state.ghost.get("pulled", False)
        eng.oblige("%s/R5:pulled-before-wait" % eng.cur_func, z3.BoolVal(bool(pulled)),
                   clause="the I/O loop has been woken (pull_trigger) since the last wait before blocking on outbuf_lock", kind="discipline")
        eng.state.ghost["pulled"] = False

    def on_list_pop(self, eng, lst=None, value=None, node=None):
        me = getattr(eng, "self_under_verification", None)
        if me is None or me.cls != CH:
            return
        r = eng.state.heap.get((me.oid, "requests"))
        if isinstance(r, VList) and r.lid == lst.lid:
            eng.state.ghost["popped_request"] = True
            if eng.role == "W":
                eng.state.ghost["pulled"] = False       # R5: the queue changed after the last wake-up
        ob = eng.state.heap.get((me.oid, "outbufs"))
        if isinstance(ob, VList) and ob.lid == lst.lid:
            # C09: a buffer taken off the output queue (it may wrap the application's file) must be closed by whoever removed it
            v = eng.force(value)
            if isinstance(v, VObj):
                # C04: only a buffer whose bytes have all been sent may leave the queue (otherwise unsent bytes of a response are dropped)
                view = eng.force(eng.getattr(v, "view"))
                eng.oblige("%s/C04-only-a-drained-buffer-leaves-the-output-queue" % eng.cur_func, z3.Length(view.t) == 0,
                           clause="len(<buffer popped from self.outbufs>.view) == 0", kind="assert")
            pend = dict(eng.state.ghost.get("removed_unclosed", {}))
            pend[getattr(v, "oid", id(v))] = True
            eng.state.ghost["removed_unclosed"] = pend

    def on_attr_write(self, eng, obj=None, field=None, val=None, node=None):
        me = getattr(eng, "self_under_verification", None)
        if me is not None and isinstance(obj, VObj) and obj.oid == me.oid and field == "last_activity":
            eng.state.ghost["activity_refreshed"] = True        # C18: the idle clock was restarted
        if (me is not None and isinstance(obj, VObj) and obj.oid == me.oid and field == "will_close" and eng.cur_func.split("@")[0].endswith(".handle_write")
                and node is not None):
            fn = eng.repo.find(eng.cur_qual)
            if fn is not None and fn.lineno <= getattr(node, "lineno", 0) <= fn.end_lineno:
                # C03: in handle_write's own body the only way to decide "close now" is the promotion of close_when_flushed, and that
                # may happen only once the whole backlog has been sent (a socket error goes through _flush_exception, not through here)
                tot = eng.force(eng.state.heap[(me.oid, "total_outbufs_len")])
                eng.oblige("%s/C03-close-when-flushed-is-promoted-only-with-an-empty-backlog" % eng.cur_func, tot.t == 0,
                           clause="self.will_close = True in handle_write() only with self.total_outbufs_len == 0", kind="assert")
        if me is not None and isinstance(obj, VObj) and obj.oid == me.oid and eng.role == "W" and field in ("close_when_flushed", "will_close", "requests"):
            eng.state.ghost["pulled"] = False           # R5: a close decision / queue change must be followed by a wake-up

    def on_list_write(self, eng, lst=None, node=None, op=None, arg=None, **kw):
        me = getattr(eng, "self_under_verification", None)
        if me is None or me.cls != CH:
            return
        ob = eng.state.heap.get((me.oid, "outbufs"))
        if isinstance(ob, VList) and ob.lid == lst.lid and op == "append" and eng.cur_func.split("@")[0].endswith(".write_soon"):
            # C09/C12: a producer queues output (possibly the application's file) only on a channel it has seen connected while holding
            # outbuf_lock -- teardown happens under that lock, so nothing is ever queued behind it
            eng.oblige("%s/C09-output-is-queued-only-on-a-channel-seen-connected-under-the-lock" % eng.cur_func,
                       eng.truth(eng.force(eng.state.heap[(me.oid, "connected")])),
                       clause="self.connected (as read under the current hold of outbuf_lock) at every self.outbufs.append in write_soon()", kind="assert")
        r = eng.state.heap.get((me.oid, "requests"))
        if isinstance(r, VList) and r.lid == lst.lid:
            if (eng.role or "").rstrip("L") == "IO" and op not in ("append",) and eng.cur_func.split("@")[0].split(".")[-1] not in ("cancel",):
                eng.oblige("%s/R3:io-only-appends-requests" % eng.cur_func, z3.BoolVal(False),
                           clause="the I/O thread only appends to `requests` (the worker's token is stable)", kind="discipline")
            if eng.role == "W" and op == "append":
                eng.oblige("%s/R3:worker-never-appends-requests" % eng.cur_func, z3.BoolVal(False),
                           clause="a worker never grows `requests`", kind="discipline")


def alias(eng, env):
    me = env["self"]
    srv = eng.state.heap[(me.oid, "server")]
    eng.state.heap[(srv.oid, "adj")] = eng.state.heap[(me.oid, "adj")]
    eng.state.ghost["pulled"] = False
    eng.state.ghost["tasks_added"] = 0


REQ_INV = [("close-when-flushed-means-queue-dropped", "implies(self.close_when_flushed, len(self.requests) == 0)"),
           # the 100-continue latch is per request: it is only ever set for the request being read and is cleared when that request completes,
           # so a later expecting request on the same connection gets its own interim response
           ("C19-latch-belongs-to-the-request-being-read", "implies(self.sent_continue, self.request is not None)")]
# established by received()'s loop invariant on every normal exit; on an exceptional exit (OSError out of send_continue) the channel is
# torn down by wasyncore's handle_error, so the fact is only ASSUMED when the lock is acquired (listed in the evidence)
REQ_ASSUMED = [("C19-pending-request-is-not-completed", "implies(self.request is not None, not self.request.completed)")]
OUT_INV = [("at-least-one-outbuf", "len(self.outbufs) >= 1")]
# accounting invariant total_outbufs_len == sum(len(b) for b in outbufs) needs a sum over a list of buffers: not proved, only its
# consequence is ASSUMED (listed in the evidence)
OUT_ASSUMED = [("total-nonneg", "self.total_outbufs_len >= 0")]


def install(reg):
    from contracts import adj, buffers_abs, parser, receiver
    adj.install(reg)
    buffers_abs.install(reg)
    receiver.install(reg)
    parser.install(reg)
    # the channel never looks inside a parser's receiver: keep it opaque here (avoids a 3-way split per parser state)
    reg.classes[PARSER].fields["body_rcv"] = Opt(Opaque("receiver"))
    reg.classes[PARSER].invariants = []
    reg.install_std_specs()
    reg.spec_funcs.update({"role_is": role_is, "pulled": ghost_flag("pulled"), "tasks_added": ghost_int("tasks_added"), "holds": holds,
                           "notified": notified, "seq": seq, "acquired": acquired})
    install_threading(reg, lambda eng: next((h for h in eng.hooks if isinstance(h, MonitorHook)), None))
    reg.add_class(ClassSpec(SERVER, fields={"adj": Obj("adjustments.Adjustments")}, env_methods={
        "add_task": EnvSpec(returns=None, effect=srv_add_task), "pull_trigger": EnvSpec(returns=None, effect=srv_pull)}))
    reg.add_class(ClassSpec(CH, fields={
        "server": Obj(SERVER), "adj": Obj("adjustments.Adjustments"), "outbufs": GList(Obj(OB, lazy=True)), "sendbuf_len": Int,
        "requests_lock": Obj(LOCK), "outbuf_lock": Obj(COND), "connected": Bool, "requests": GList(Obj(PARSER, lazy=True)),
        "request": Opt(Obj(PARSER, lazy=True)), "last_activity": Int, "will_close": Bool, "close_when_flushed": Bool, "sent_continue": Bool,
        "total_outbufs_len": Int, "current_outbuf_count": Int, "creation_time": Int},
        invariants=[("sendbuf-positive", "self.sendbuf_len >= 1")] + OUT_INV))
    reg.classes[CH].assumed = list(OUT_ASSUMED)
    reg.monitors = [
        MonitorSpec("requests_lock", ["requests", "request", "sent_continue", "close_when_flushed"], REQ_INV, name="req"),
        MonitorSpec("outbuf_lock", ["outbufs", "total_outbufs_len", "current_outbuf_count", "connected"], OUT_INV, name="out"),
    ]
    # R3: the I/O thread may touch output state without the lock only while no worker owns the connection
    reg.monitors[1].unlocked_ok = lambda eng, me: z3.BoolVal(False)
    reg.monitors[1].unlocked_fields = {"connected"}          # `connected` is also cleared by the I/O thread on EOF / close (single writer side)
    # current_outbuf_count is only ever touched by the owner of the connection (worker while requests != [], I/O thread otherwise)
    reg.monitors[1].field_unlocked_ok = {"current_outbuf_count": lambda eng, me: z3.Or(
        z3.And(z3.BoolVal((eng.role or "").rstrip("L") == "IO"), z3.Not(eng.truth(eng.state.heap[(me.oid, "requests")]))),
        z3.And(z3.BoolVal(eng.role == "W"), eng.truth(eng.state.heap[(me.oid, "requests")])))}
    reg.monitors[0].exempt = {("close_when_flushed", "handle_write"), ("requests", "cancel")}
    reg.monitors[1].assumed = list(OUT_ASSUMED)
    reg.monitors[0].assumed = list(REQ_ASSUMED)
    reg.monitors[1].wait_post = "self.total_outbufs_len < self.adj.outbuf_high_watermark or not self.connected"

    reg.add_class(ClassSpec("buffers.ReadOnlyFileBasedBuffer", fields={"remain": Int}, invariants=[("remain-nonneg", "self.remain >= 0")], inherit=False))
    reg.inline.update({"buffers.FileBasedBuffer.__bool__", "buffers.FileBasedBuffer.__len__"})
    R4 = ("worker-never-closes", "implies(role_is('W'), not do_close)")
    # every flush / every access to the output state holds outbuf_lock, on either thread.  (Until 40d7a9a the I/O thread flushed
    # without the lock while `requests` was empty; that was not exclusive with the worker's locked flush in the trailing
    # send_continue() of service(), see FX-C04-40d7a9a.)
    R3 = ("owns-output-state", "holds('outbuf_lock')")

    # ---- wasyncore.dispatcher.send : assumed socket contract (demonic socket), R4 as precondition
    reg.add(FuncContract("wasyncore.dispatcher.send", params={"data": Bytes, "do_close": Bool}, returns=Int, requires=[R4],
        raises=["OSError"],
        ensures=[("accepted-range", "0 <= result <= len(data)"),
                 ("no-teardown-without-do_close", "implies(not do_close, self.connected == old(self.connected) and self.total_outbufs_len == old(self.total_outbufs_len))"),
                 ("progress-means-no-teardown", "implies(result > 0, self.connected == old(self.connected) and self.total_outbufs_len == old(self.total_outbufs_len))"),
                 ("teardown-zeroes", "implies(self.connected != old(self.connected), not self.connected and self.total_outbufs_len == 0 and result == 0)"),
                 ("no-teardown-no-change", "implies(self.connected == old(self.connected), self.total_outbufs_len == old(self.total_outbufs_len) or (not self.connected and self.total_outbufs_len == 0 and result == 0))")],
        ensures_exc=[("raise-has-no-side-effect", "self.connected == old(self.connected) and self.total_outbufs_len == old(self.total_outbufs_len)")],
        modifies=["self.connected", "self.total_outbufs_len"], cls=CH, check_invariant=False))
    # reading (I/O thread only): end of stream and disconnect errors tear the channel down here, other socket errors reach handle_read,
    # which closes; nothing escapes handle_read except what received() lets through (an OSError from the interim-response flush)
    reg.add(FuncContract("wasyncore.dispatcher.recv", params={"buffer_size": Int}, returns=Bytes, requires=[("io", "role_is('IO')")], raises=["OSError"],
        ensures=[("C13-end-of-stream-closes", "implies(len(result) == 0, not self.connected and self.total_outbufs_len == 0)"),
                 ("data-leaves-the-channel-alone", "implies(len(result) > 0, self.connected == old(self.connected) and self.total_outbufs_len == old(self.total_outbufs_len))")],
        ensures_exc=[("raise-has-no-side-effect", "self.connected == old(self.connected) and self.total_outbufs_len == old(self.total_outbufs_len)")],
        modifies=["self.connected", "self.total_outbufs_len"], cls=CH, check_invariant=False))
    reg.add(FuncContract(CH + ".handle_read", requires=[("io", "role_is('IO')")], raises=["OSError"], setup=alias,
        ensures=[("C13-read-error-or-end-of-stream-disconnects", "implies(not received_called(), not self.connected)"),
                 # a connection that receives data is not idle: its clock restarts before the data is handed to the parser
                 ("C18-receiving-data-restarts-the-idle-clock", "implies(received_called(), activity_refreshed())")],
        modifies=["self.connected", "self.total_outbufs_len", "self.last_activity", "self.outbufs", "self.current_outbuf_count", "self.requests", "self.request",
                  "self.sent_continue"], check_invariant=False))
    # teardown on the I/O thread: under outbuf_lock it drops the backlog, clears `connected` and wakes a producer that is paused on the
    # watermark (whatever the backlog was: a paused producer must always learn that the client is gone); then the descriptor is closed
    reg.add(FuncContract("wasyncore.dispatcher.close", raises=["OSError"], modifies=[], cls=CH, check_invariant=False))
    # a worker that takes outbuf_lock right after the teardown (write_soon with a file wrapper, C09) must see the channel as gone:
    # `connected` is cleared and the backlog dropped BEFORE the lock is released, not later in dispatcher.close()
    HANDLE_CLOSE_AT_RELEASE = {"outbuf_lock": [("C09-disconnected-before-the-lock-is-released", "not self.connected and self.total_outbufs_len == 0")]}
    # on a worker do_close is false (R4), so the teardown branch of send() is dead there: that IS the role frame
    reg.funcs["wasyncore.dispatcher.send"].unreachable_ok_by_role = {"W": ("self.handle_close()",)}
    reg.add(FuncContract(CH + ".handle_close", requires=[("io", "role_is('IO')")], raises=["OSError"], setup=alias,
        ensures=[("disconnected", "not self.connected"), ("zero", "self.total_outbufs_len == 0"),
                 ("W5-close-wakes-a-paused-producer", "notified('outbuf_lock')")],
        ensures_exc=[("disconnected", "not self.connected"), ("zero", "self.total_outbufs_len == 0"),
                     ("W5-close-wakes-a-paused-producer", "notified('outbuf_lock')")],
        loops={0: LoopSpec(invariants=[("lock", "holds('outbuf_lock')")] + OUT_INV)},
        modifies=["self.connected", "self.total_outbufs_len"], check_invariant=False))
    reg.funcs[CH + ".handle_close"].at_release = HANDLE_CLOSE_AT_RELEASE
    # every queued output buffer (each may wrap a file handed over by the application) gets its close() at teardown, whatever the others do
    reg.funcs[CH + ".handle_close"].loops[0].must_exhaust = "C09-every-queued-buffer-is-closed-at-teardown"

    reg.add(FuncContract(CH + "._flush_some", params={"do_close": Bool}, returns=Bool, requires=[R4, R3], raises=["OSError"], setup=alias,
        entry_holds={"W": ["outbuf_lock"], "IOL": ["outbuf_lock"]},
        ensures=[("total-never-grows", "self.total_outbufs_len <= old(self.total_outbufs_len)"),
                 ("returns-whether-sent", "implies(not result, self.total_outbufs_len == old(self.total_outbufs_len) or not self.connected)"),
                 ("connected-only-cleared", "implies(self.connected, old(self.connected))"),
                 ("no-teardown-without-do_close", "implies(not do_close, self.connected == old(self.connected))"),
                 ("C09-every-buffer-taken-off-the-queue-is-closed", "removed_unclosed() == 0"),
                 ("C18-sending-data-restarts-the-idle-clock", "implies(result, activity_refreshed())")],
        ensures_exc=[("total-never-grows", "self.total_outbufs_len <= old(self.total_outbufs_len)"),
                     ("C09-every-buffer-taken-off-the-queue-is-closed", "removed_unclosed() == 0"),
                     ("no-teardown-without-do_close", "implies(not do_close, self.connected == old(self.connected))")],
        loops={0: LoopSpec(invariants=[("total-never-grows", "self.total_outbufs_len <= old(self.total_outbufs_len)"), 
                                       ("C09-every-buffer-taken-off-the-queue-is-closed", "removed_unclosed() == 0"),
                                       ("outbufs", "len(self.outbufs) >= 1"), ("sent-nonneg", "sent >= 0"),
                                       ("sent-means-shrunk-or-closed", "implies(sent == 0, self.total_outbufs_len == old(self.total_outbufs_len) or not self.connected)"),
                                       ("connected-only-cleared", "implies(self.connected, old(self.connected))"),
                                       ("no-teardown-without-do_close", "implies(not do_close, self.connected == old(self.connected))")],
                           modifies=["self.total_outbufs_len", "self.connected", "self.last_activity"]),
               1: LoopSpec(invariants=[("C04-remaining-count-is-what-the-buffer-still-holds", "outbuflen == len(outbuf.view)"),
                                       ("total-never-grows", "self.total_outbufs_len <= old(self.total_outbufs_len)"), 
                                       ("C09-every-buffer-taken-off-the-queue-is-closed", "removed_unclosed() == 0"),
                                       ("outbufs", "len(self.outbufs) >= 1"), ("sent-nonneg", "sent >= 0"),
                                       ("sent-means-shrunk-or-closed", "implies(sent == 0, self.total_outbufs_len == old(self.total_outbufs_len) or not self.connected)"),
                                       ("connected-only-cleared", "implies(self.connected, old(self.connected))"),
                                       ("no-teardown-without-do_close", "implies(not do_close, self.connected == old(self.connected))")],
                           modifies=["self.total_outbufs_len", "self.connected"])},
        modifies=["self.total_outbufs_len", "self.connected", "self.last_activity", "self.outbufs"]))

    for k in (0, 1):
        reg.funcs[CH + "._flush_some"].loops[k].assumed = list(OUT_ASSUMED)
    reg.add(FuncContract(CH + "._flush_some_if_lockable", params={"do_close": Bool}, requires=[R4], raises=["OSError"], setup=alias,
        ensures=[("W4-producer-notified-when-at-or-below-mark",
                  "implies(acquired('outbuf_lock') and self.total_outbufs_len <= self.adj.outbuf_high_watermark, notified('outbuf_lock'))")],
        modifies=["self.total_outbufs_len", "self.connected", "self.last_activity", "self.outbufs"]))

    reg.add(FuncContract(CH + "._flush_exception", params={"flush": Opt(Opaque("flushfn")), "do_close": Bool}, returns=TupleOf(Bool, Bool),
        requires=[R4], raises=[], setup=alias,
        modifies=["self.total_outbufs_len", "self.connected", "self.last_activity", "self.outbufs", "self.will_close"]))
    reg.inline.add(CH + "._flush_exception")     # executed inline at its call sites (its `flush` argument is a bound method)
    reg.funcs[CH + "._flush_exception"].inline = True

    reg.add(FuncContract(CH + "._flush_outbufs_below_high_watermark", raises=[], setup=alias,
        requires=[("worker", "role_is('W')")],
        ensures=[("C12-below-mark-or-disconnected", "self.total_outbufs_len <= self.adj.outbuf_high_watermark or not self.connected")],
        # entered with outbuf_lock held from write_soon() but WITHOUT it from service(): verified for the weaker entry state (not held);
        # the function takes the (re-entrant) lock itself before it touches the output state
        loops={0: LoopSpec(invariants=OUT_INV, modifies=["self.total_outbufs_len", "self.connected", "self.outbufs", "self.current_outbuf_count"])},
        modifies=["self.total_outbufs_len", "self.connected", "self.last_activity", "self.outbufs", "self.will_close"]))

    reg.add(FuncContract(CH + ".write_soon", params={"data": OneOf(Bytes, Obj("buffers.ReadOnlyFileBasedBuffer"))}, returns=Int,
        requires=[("worker", "role_is('W')")], raises=["channel.ClientDisconnected"], setup=alias,
        ensures=[("C12-bound", "implies(result > 0, self.total_outbufs_len <= self.adj.outbuf_high_watermark + result)"),
                 ("W1-io-woken-when-flush-threshold-reached", "implies(result > 0 and self.total_outbufs_len >= self.adj.send_bytes, pulled())")],
        modifies=["self.total_outbufs_len", "self.connected", "self.last_activity", "self.outbufs", "self.will_close", "self.current_outbuf_count"]))

    reg.add(FuncContract(CH + ".send_continue", raises=["OSError"], setup=alias, entry_holds={"IO": ["requests_lock"], "W": ["requests_lock"]},
        requires=[("partial-expecting-request", "self.request is not None and self.request.expect_continue and self.request.headers_finished"),
                  ("C19-latch", "not self.sent_continue"), ("C19-after-every-earlier-response", "len(self.requests) == 0"),
                  ("holds-requests-lock", "holds('requests_lock')")],
        ensures=[("C19-latched", "self.sent_continue"), ("C19-does-not-uncomplete-the-request", "self.request.completed == old(self.request.completed)")],
        modifies=["self.total_outbufs_len", "self.connected", "self.last_activity", "self.outbufs", "self.current_outbuf_count", "self.sent_continue",
                  "self.request.expect_continue"]))

    reg.add(FuncContract(CH + ".handle_write", raises=["OSError"], setup=alias,
        requires=[("io", "role_is('IO')")],
        ensures=[("C11-close-decision-monotone", "implies(old(self.will_close or self.close_when_flushed), self.will_close or self.close_when_flushed or not self.connected)"),
                 ("C18-will-close-closes", "implies(old(self.will_close), not self.connected)"),
                 # the producer sleeps until the I/O thread has sent some of the backlog: the I/O thread tries to send whenever nothing is being
                 # produced any more, and, while a task runs, as soon as the backlog has REACHED send_bytes (a backlog of exactly send_bytes that
                 # is above the high-water mark must not be left to a producer that is already asleep)
                 ("C12-the-io-thread-sends-a-backlog-that-has-reached-send_bytes",
                  "implies(old(len(self.requests) == 0 or self.total_outbufs_len >= self.adj.send_bytes), io_flush_attempted())"),
                 # the property itself: a producer is paused exactly while the backlog is above the high-water mark, so above the mark the
                 # I/O thread must try to send whatever send_bytes says.  REFUTED on the current code for outbuf_high_watermark < send_bytes - 1
                 # (KF-C12-1, re-enacted natively: replay/native/c12_paused_below_send_bytes.py)
                 ("C12-the-io-thread-sends-while-a-producer-may-be-paused",
                  "implies(old(self.total_outbufs_len > self.adj.outbuf_high_watermark), io_flush_attempted())")]))
    reg.add(FuncContract(CH + ".readable", returns=Bool,
        ensures=[("C11-not-readable-after-close-decision", "implies(self.will_close or self.close_when_flushed, not result)"),
                 ("C04-no-read-while-output-pending", "implies(self.total_outbufs_len > 0, not result)"),
                 ("lookahead", "implies(len(self.requests) > self.adj.channel_request_lookahead, not result)")]))
    install_service(reg)
    install_ctor(reg)
    reg.add(FuncContract(CH + ".writable", returns=Bool,
        ensures=[("C18-close-flags-make-writable", "implies(self.will_close or self.close_when_flushed, result)"),
                 ("C05-pending-output-makes-writable", "implies(self.total_outbufs_len > 0, result)")]))


def install_service(reg):
    TASK = "task.Task"
    for c in (TASK, "task.ErrorTask", "task.WSGITask"):
        reg.add_class(ClassSpec(c, fields={"close_on_finish": Bool, "wrote_header": Bool}))
    reg.inline.update({"task.Task.__init__"})
    reg.add(FuncContract(TASK + ".service", raises=["channel.ClientDisconnected", "Exception", "BaseException:opaque"],
        modifies=["self.close_on_finish", "self.wrote_header", "self.channel.will_close", "self.channel.total_outbufs_len", "self.channel.connected",
                  "self.channel.outbufs", "self.channel.current_outbuf_count", "self.channel.last_activity"], check_invariant=False,
        ensures=[("channel-keeps-an-outbuf", "len(self.channel.outbufs) >= 1")], ensures_exc=[("channel-keeps-an-outbuf", "len(self.channel.outbufs) >= 1")]))
    # an ErrorTask runs no application code: only the client going away can interrupt it (its body is C03/C08's subject)
    reg.add(FuncContract("task.ErrorTask.service", raises=["channel.ClientDisconnected"],
        modifies=["self.close_on_finish", "self.wrote_header", "self.channel.will_close", "self.channel.total_outbufs_len", "self.channel.connected",
                  "self.channel.outbufs", "self.channel.current_outbuf_count", "self.channel.last_activity"], check_invariant=False,
        ensures=[("channel-keeps-an-outbuf", "len(self.channel.outbufs) >= 1"), ("error-response-closes", "self.close_on_finish")],
        ensures_exc=[("channel-keeps-an-outbuf", "len(self.channel.outbufs) >= 1")]))
    reg.spec_funcs["popped"] = ghost_flag("popped_request")
    reg.spec_funcs["received_called"] = ghost_flag("received_called")
    reg.spec_funcs["activity_refreshed"] = ghost_flag("activity_refreshed")
    reg.spec_funcs["io_flush_attempted"] = ghost_flag("io_flush_attempted")
    reg.spec_funcs["removed_unclosed"] = lambda eng: VInt(len(eng.state.ghost.get("removed_unclosed", {})))
    reg.add(FuncContract(CH + ".service", raises=[], setup=alias,
        requires=[("worker", "role_is('W')"), ("owns-connection", "len(self.requests) >= 1")],
        rely=[("token-stable-until-this-worker-pops", "len(self.requests) >= 1 or popped()")],
        ensures=[("C09-request-popped-or-connection-closing", "popped() or self.close_when_flushed"),
                 ("C05-W2-io-woken-after-service", "implies(self.connected, pulled())"),
                 # a connection that has just finished a request gets a full channel_timeout of idle time from that moment
                 ("C18-finishing-a-request-restarts-the-idle-clock", "activity_refreshed()")],
        ensures_exc=[("C09-request-popped-or-connection-closing", "popped() or self.close_when_flushed")],
        loops={0: LoopSpec(invariants=[("lock", "holds('requests_lock')"),
                                       ("C11-close-decision-published-before-the-queue-is-dropped", "self.close_when_flushed")])}))
    # the hand-over of the connection from one request to the next happens under requests_lock, on the queue as it is THEN:
    # when the lock is released after the pop, a request still queued has a task, and no task exists without one
    reg.funcs[CH + ".service"].at_release = {"requests_lock": [
        ("C04-a-queued-request-always-has-a-task", "implies(popped() and self.connected and len(self.requests) >= 1, tasks_added() == 1)"),
        ("C04-no-task-without-a-queued-request", "implies(len(self.requests) == 0, tasks_added() == 0)")]}
    reg.add(FuncContract(CH + ".received", params={"data": Bytes}, returns=Bool, raises=["OSError"], setup=alias,
        requires=[("io", "role_is('IO')")],
        loops={0: LoopSpec(invariants=[("lock", "holds('requests_lock')"),
                                       ("C11-no-close-decision-while-parsing", "not self.close_when_flushed and not self.will_close"),
                                       ("C19-no-completed-request-left-pending", "implies(self.request is not None, not self.request.completed)"),
                                       REQ_INV[1]] + OUT_INV,
                           modifies=["self.total_outbufs_len", "self.connected", "self.last_activity", "self.outbufs", "self.current_outbuf_count"])},
        modifies=["self.total_outbufs_len", "self.connected", "self.last_activity", "self.outbufs", "self.current_outbuf_count", "self.requests", "self.request",
                  "self.sent_continue"]))


def registered(eng):
    return VInt(eng.state.ghost.get("registered", 0))


class RegisterHook:
    """ghost: number of socket-map / active_channels entries stored (opaque maps: every item store counts)"""
    def on_opaque_setitem(self, eng, base=None, key=None, val=None, node=None):
        if base.tag in ("socketmap", "active_channels"):
            eng.state.ghost["registered"] = eng.state.ghost.get("registered", 0) + 1


def install_ctor(reg):
    SOCK = "model.Sock"
    reg.spec_funcs["registered"] = registered
    reg.add_class(ClassSpec(SOCK, fields={}, env_methods={
        "getsockopt": EnvSpec(returns=Int, raises=["OSError"]), "setblocking": EnvSpec(returns=None, raises=["OSError"]), "fileno": EnvSpec(returns=Int),
        # the kernel accepts any prefix of the data or fails with an arbitrary errno
        "send": EnvSpec(returns=Int, raises=["OSError"], params=["data"], ensures=["0 <= result <= len(data)"]),
        "recv": EnvSpec(returns=Bytes, raises=["OSError"], params=["buffer_size"])}))
    reg.classes[CH].fields["socket"] = Obj(SOCK)
    reg.classes[SERVER].fields["active_channels"] = Opaque("active_channels")
    reg.inline.update({"wasyncore.dispatcher.__init__", "wasyncore.dispatcher.set_socket", "wasyncore.dispatcher.add_channel", CH + ".add_channel"})
    reg.add(FuncContract(CH + ".__init__", params={"server": Obj(SERVER), "sock": Obj(SOCK), "addr": Opaque("addr"), "adj": Obj("adjustments.Adjustments"), "map": Opaque("socketmap")},
        fresh_self=True, raises=["OSError"], check_invariant=False,
        ensures=[("C13-registered-in-map-and-active-channels", "registered() == 2"), ("connected", "self.connected"),
                 # the idle clock of a connection starts when it is accepted (a silent new connection gets a full channel_timeout)
                 ("C18-activity-clock-starts-at-creation", "self.last_activity == self.creation_time"),
                 # write_soon() takes outbuf_lock and, still holding it, calls _flush_outbufs_below_high_watermark() which takes it again:
                 # with a plain lock the producer blocks on itself and the backlog is never drained
                 ("C05-the-output-lock-is-re-entrant", "reentrant(self.outbuf_lock)")],
        ensures_exc=[("C13-nothing-registered-when-set-up-fails", "registered() == 0")]))
    reg.funcs[CH + ".__init__"].frame_check = False
    # teardown may run twice for one connection (a socket error during the flush AND the promotion of close_when_flushed in the same handle_write):
    # removing the connection from the loop's tables is idempotent -- whatever the tables hold, nothing is raised into the I/O loop
    reg.classes[CH].fields["_fileno"] = Opt(Int)
    reg.classes[CH].fields["_map"] = Opaque("socketmap")
    reg.inline.add("wasyncore.dispatcher.del_channel")
    reg.add(FuncContract(CH + ".del_channel", params={"map": Opt(Opaque("socketmap"))}, raises=[],
        requires=[("io", "role_is('IO')")],
        ensures=[("C13-unregistering-a-connection-never-fails", "self._fileno is None")]))
    reg.funcs[CH + ".del_channel"].frame_check = False


def attach(eng, reg, qual):
    eng.hooks.append(RegisterHook())
    def me(e):
        return getattr(e, "self_under_verification", None)
    eng.hooks.append(MonitorHook(reg.monitors, me))
    eng.hooks.append(ChannelHook())
