"""Contracts for waitress/parser.py (C01, C06, C07, C19)."""
from vlib.contract import *
from vlib.pyvc import VStr, VTuple, VOpaque, RaiseSig, VExc

T4 = "b'\\r\\n\\r\\n'"

PARSER_FIELDS = {
    "completed": Bool, "empty": Bool, "expect_continue": Bool, "headers_finished": Bool, "header_plus": Bytes, "chunked": Bool,
    "content_length": Int, "header_bytes_received": Int, "body_bytes_received": Int,
    "body_rcv": Opt(OneOf(Obj("receiver.FixedStreamReceiver"), Obj("receiver.ChunkedReceiver"))),
    "version": Str, "error": Opt(Obj("utilities.Error")), "connection_close": Bool,
    "headers": DictOf(Str1), "adj": Obj("adjustments.Adjustments"),
    "path": Str1, "command": Str1, "request_uri": Str1, "query": Str1, "url_scheme": Str,
    "first_line": Bytes, "fragment": Str1, "proxy_scheme": Str1, "proxy_netloc": Str1,
}

PARSER_INV = [
    ("head-phase", "implies(not self.headers_finished and not self.completed, self.body_rcv is None and %s not in self.header_plus"
                   " and self.header_bytes_received == len(self.header_plus) and self.content_length == 0 and not self.chunked"
                   " and self.body_bytes_received == 0 and not self.connection_close and not self.expect_continue and self.error is None)" % T4),
    ("no-headers-before-parse", "implies(not self.headers_finished and not self.completed, dict_empty(self.headers))"),
    ("no-body-means-complete", "implies(self.headers_finished and self.body_rcv is None, self.completed)"),
    ("body-phase", "implies(self.body_rcv is not None, self.headers_finished)"),
    ("error-completes", "implies(self.error is not None, self.completed)"),
]


def fdn(eng, s):
    """spec function: position just after the first CRLFCRLF, or -1 (utilities.find_double_newline)"""
    import z3
    from vlib.pyvc import VInt
    i = z3.IndexOf(s.t, z3.StringVal("\r\n\r\n"), 0)
    return VInt(z3.If(i >= 0, i + 4, i))


def isinst(eng, v, clsname):
    """spec function: isinstance(v, <waitress class named clsname>) for object-valued v (None -> False)"""
    import z3
    from vlib.pyvc import VBool, VObj, VOpt, VNone
    from vlib.builtins_model import strval
    name = strval(clsname)
    def one(x):
        if isinstance(x, VNone):
            return z3.BoolVal(False)
        if isinstance(x, VObj):
            return z3.BoolVal(any(c.split(".")[-1] == name for c in eng.mro(x.cls)))
        from vlib.pyvc import VOpaque
        if isinstance(x, VOpaque):
            cache = eng.state.ghost.setdefault("isinstance", {})
            key = (id(x), name)
            if key not in cache:
                cache[key] = eng.fresh_bool("isinst_%s_%s" % (x.tag, name)).t
            return cache[key]
        raise Exception("isinst on %r" % (x,))
    if isinstance(v, VOpt):
        return VBool(z3.And(z3.Not(v.none), one(v.val)))
    return VBool(one(v))


def intval10(eng, s):
    """value of a decimal literal (uninterpreted int() image; defined on the digit gate's language)"""
    from vlib.builtins_model import F_INT
    from vlib.pyvc import VInt
    return VInt(F_INT[10](eng.force(s).t))


def lower(eng, s):
    from vlib.builtins_model import F_LOWER
    from vlib.pyvc import VStr
    return VStr(F_LOWER(eng.force(s).t), False)


def cl_popped(eng):
    from vlib.pyvc import VBool
    return VBool(bool(eng.state.ghost.get("cl_popped", False)))


class ParserHook:
    """ghost: records that parse_header removed a Content-Length that was present next to a chunked Transfer-Encoding"""
    def on_dict_write(self, eng, d=None, key=None, val=None, node=None):
        from vlib.builtins_model import strval
        k = eng.force(key) if key is not None else None
        if val is None and k is not None and strval(k) == "CONTENT_LENGTH" and eng.cur_func.endswith("parse_header"):
            eng.state.ghost["cl_popped"] = True


    def on_attr_write(self, eng, obj=None, field=None, val=None, node=None):
        # C02: the first framing error of a chunked body is the one reported, whatever the rest of the same read contains
        from vlib.pyvc import VObj, VNone
        if field == "error" and isinstance(obj, VObj) and obj.cls == "receiver.ChunkedReceiver" and eng.cur_func.split("@")[0].endswith("ChunkedReceiver.received"):
            cur = eng.state.heap.get((obj.oid, "error"))
            if cur is not None:
                import ast
                fn = eng.repo.find(eng.cur_qual)
                sites = [n for n in ast.walk(fn) if isinstance(n, ast.Attribute) and isinstance(n.ctx, ast.Store) and n.attr == "error"]
                sites.sort(key=lambda n: (n.lineno, n.col_offset))
                ordinal = next((i for i, n in enumerate(sites) if n.lineno == getattr(node, "lineno", None)), -1)
                eng.oblige("%s/C02-first-framing-error-is-kept#store%d" % (eng.cur_func, ordinal),
                           eng.identical(cur, VNone()), clause="self.error is None before `self.error = ...` (an earlier error is not replaced)", kind="assert")


def attach(eng, reg, qual):
    eng.hooks.append(ParserHook())


def install(reg):
    reg.spec_funcs["fdn"] = fdn
    reg.spec_funcs.update({"intval10": intval10, "lower": lower, "cl_popped": cl_popped})
    reg.spec_funcs["isinst"] = isinst
    for cls in ("utilities.Error", "utilities.BadRequest", "utilities.RequestHeaderFieldsTooLarge", "utilities.RequestEntityTooLarge",
                "utilities.ServerNotImplemented", "utilities.InternalServerError"):
        reg.add_class(ClassSpec(cls, fields={"body": Str}))
    reg.add(FuncContract("utilities.Error.__init__", params={"body": Str}, fresh_self=True, inline=True))
    reg.add_class(ClassSpec("parser.HTTPRequestParser", fields=PARSER_FIELDS, invariants=PARSER_INV))
    reg.inline.update({"receiver.FixedStreamReceiver.__init__", "receiver.ChunkedReceiver.__init__", "utilities.find_double_newline",
                       "parser.crack_first_line"})

    reg.install_std_specs()
    import z3
    def _final(eng, name):
        from vlib.builtins_model import strval
        from vlib.pyvc import NONE
        return eng.final_locals.get(strval(name), NONE)
    reg.spec_funcs["final"] = _final
    reg.elem_preds["is_chunked"] = lambda eng, x: eng.force(x).t == z3.StringVal("chunked")
    reg.elem_preds["no_crlf"] = lambda eng, x: z3.And(z3.Not(z3.Contains(x.t, z3.StringVal("\r"))), z3.Not(z3.Contains(x.t, z3.StringVal("\n"))))
    reg.add(FuncContract("parser.get_header_lines", params={"header": Bytes}, returns=ListOf(Bytes),
        raises=["parser.ParsingError"],
        ensures=[("lines-have-no-cr-lf", "all_elems(result, 'no_crlf')")],
        loops={0: LoopSpec(invariants=[("C01-r-lines-have-no-cr-lf", "all_elems(r, 'no_crlf')")], types={"r": ListOf(Bytes)})},
        props=["inline-on-constants"]))
    reg.add(FuncContract("parser.split_uri", params={"uri": Bytes}, returns=TupleOf(Str1, Str1, Str1, Str1, Str1),
        raises=["parser.ParsingError"], props=["inline-on-constants"],
        ensures=[
            # the scheme-less "//..." form is cut by hand (not by urlsplit): fragment after the first '#', query after the first '?' before it
            ("C07-query-starts-after-the-first-question-mark",
             "implies(uri[:2] == b'//' and b'#' not in uri and b'?' in uri, result[3] == uri[uri.find(b'?') + 1:].decode('latin-1'))"),
            ("C07-no-query-without-a-question-mark", "implies(uri[:2] == b'//' and b'?' not in uri, result[3] == '')"),
            ("C07-fragment-starts-after-the-first-hash", "implies(uri[:2] == b'//' and b'#' in uri, result[4] == uri[uri.find(b'#') + 1:].decode('latin-1'))"),
            ("C07-double-slash-target-has-no-scheme-or-authority", "implies(uri[:2] == b'//', result[0] == '' and result[1] == '')"),
        ]))
    reg.funcs["parser.split_uri"].body_only = {"C07-query-starts-after-the-first-question-mark", "C07-no-query-without-a-question-mark",
                                               "C07-fragment-starts-after-the-first-hash", "C07-double-slash-target-has-no-scheme-or-authority"}
    reg.inline.add("parser.unquote_bytes_to_wsgi")
    # parse_header is a helper of received(): it is entered while the representation invariant is temporarily broken
    # (header_bytes_received already updated, header_plus not yet), so its body is verified from `requires` alone
    reg.add(FuncContract("parser.HTTPRequestParser.parse_header", params={"header_plus": Bytes}, assume_invariant=False,
        requires=[("fresh-parser", "not self.completed and self.error is None and self.body_rcv is None and not self.chunked"
                                   " and self.content_length == 0 and not self.connection_close and not self.expect_continue and dict_empty(self.headers)")],
        loops={0: LoopSpec(invariants=[("true", "True")]), 1: LoopSpec(invariants=[("true", "True")])},
        raises=["parser.ParsingError", "parser.TransferEncodingNotImplemented"],
        ensures=[
            ("C01-chunked-only-on-1.1", "implies(self.chunked, self.version == '1.1')"),
            # the body is decoded as chunked only when every transfer-coding the client listed is `chunked` (anything else is 501: the
            # server does not know how the bytes after the head are framed)
            ("C01-expect-continue-only-on-1.1", "implies(self.expect_continue, self.version == '1.1')"),
            ("C01-content-length-next-to-chunked-closes", "implies(cl_popped(), self.connection_close and self.chunked)"),
            ("C01-transfer-encoding-on-non-1.1-closes", "implies(self.version != '1.1' and 'TRANSFER_ENCODING' in self.headers, self.connection_close)"),
            ("C01-no-transfer-encoding-left-on-1.1", "implies(self.version == '1.1', 'TRANSFER_ENCODING' not in self.headers)"),
            ("C01-length-is-the-gated-content-length", "implies(not self.chunked and 'CONTENT_LENGTH' in self.headers, self.content_length == intval10(self.headers['CONTENT_LENGTH']))"),
            ("C01-no-length-means-no-body", "implies(not self.chunked and 'CONTENT_LENGTH' not in self.headers, self.content_length == 0)"),
            ("C01-1.0-closes-unless-keep-alive", "implies(self.version == '1.0' and lower(self.headers.get('CONNECTION', '')) != 'keep-alive', self.connection_close)"),
            ("C01-1.1-connection-close-closes", "implies(self.version == '1.1' and lower(self.headers.get('CONNECTION', '')) == 'close', self.connection_close)"),
            ("chunked-receiver", "self.chunked == isinst(self.body_rcv, 'ChunkedReceiver')"),
            ("cl-nonneg", "self.content_length >= 0"),
            ("fixed-receiver", "isinst(self.body_rcv, 'FixedStreamReceiver') == (not self.chunked and self.content_length > 0)"),
            ("error-untouched", "self.error is None"),
            ("not-completed", "not self.completed"),
        ],
        modifies=["self.chunked", "self.content_length", "self.body_rcv", "self.version", "self.connection_close", "self.expect_continue",
                  "self.headers", "self.first_line", "self.command", "self.request_uri", "self.path", "self.query", "self.fragment",
                  "self.proxy_scheme", "self.proxy_netloc", "self.url_scheme"],
        check_invariant=False, props=["inline-on-constants"]))

    # the body is decoded as chunked only when every transfer-coding the client listed is `chunked`: a listed coding that survives the
    # validation loop IS "chunked" (anything else is 501 -- the server does not know how the bytes after the head are framed)
    reg.funcs["parser.HTTPRequestParser.parse_header"].loops[1].body_post = [
        ("C01-a-listed-transfer-coding-other-than-chunked-is-refused", "encoding == 'chunked'")]
    reg.add(FuncContract("parser.HTTPRequestParser.close"))
    reg.inline.add("parser.HTTPRequestParser.__init__")
    reg.add(FuncContract("parser.HTTPRequestParser.received", params={"data": Bytes}, returns=Int,
        raises=[],
        ensures=[
            # C19: the channel answers an expectation only for a request whose head it sees marked complete; a request that waits for its body
            # (whatever the framing of that body) must carry the mark, or the client that waits is left waiting
            ("C19-a-request-waiting-for-its-body-has-its-head-marked-complete", "implies(not self.completed and self.body_rcv is not None, self.headers_finished)"),
            ("completed-returns-0", "implies(old(self.completed), result == 0)"),
            ("result-range", "0 <= result <= len(data)"),
            ("head-progress", "implies(not old(self.completed) and old(self.body_rcv) is None and len(data) >= 1, result >= 1)"),
            ("head-delimitation", "implies(not old(self.completed) and old(self.body_rcv) is None and fdn(old(self.header_plus) + data) >= 0"
                                  " and fdn(old(self.header_plus) + data) < self.adj.max_request_header_size,"
                                  " result == fdn(old(self.header_plus) + data) - len(old(self.header_plus)) and self.headers_finished)"),
            ("head-incomplete", "implies(not old(self.completed) and old(self.body_rcv) is None and fdn(old(self.header_plus) + data) < 0"
                                " and old(self.header_bytes_received) + len(data) < self.adj.max_request_header_size,"
                                " result == len(data) and not self.completed and not self.headers_finished and self.header_plus == old(self.header_plus) + data"
                                " and self.body_rcv is None and self.header_bytes_received == old(self.header_bytes_received) + len(data))"),
            ("header-limit", "implies(not old(self.completed) and old(self.body_rcv) is None and"
                             " (fdn(old(self.header_plus) + data) if fdn(old(self.header_plus) + data) >= 0 else old(self.header_bytes_received) + len(data))"
                             " >= self.adj.max_request_header_size,"
                             " self.completed and isinst(self.error, 'RequestHeaderFieldsTooLarge'))"),
            ("body-limit-cl", "implies(not old(self.completed) and old(self.body_rcv) is None and self.headers_finished and self.error is None"
                              " and not self.chunked and self.content_length > 0, self.content_length < self.adj.max_request_body_size)"),
            ("body-limit-chunked", "implies(old(self.body_rcv) is not None and not old(self.completed) and"
                                   " self.body_bytes_received >= self.adj.max_request_body_size, self.completed and isinst(self.error, 'RequestEntityTooLarge'))"),
            # a framing error found by the body receiver (bad chunk size, missing chunk terminator, invalid trailer) refuses the MESSAGE: it is
            # never reported as a complete, error-free request, whatever else the receiver says about it (an invalid trailer also ends the body)
            ("C06-a-body-framing-error-refuses-the-message", "implies(old(self.body_rcv) is not None and not old(self.completed) and self.chunked and self.body_rcv.error is not None,"
                                                             " self.completed and self.error is not None)"),
            ("body-count", "implies(old(self.body_rcv) is not None and not old(self.completed), self.body_bytes_received == old(self.body_bytes_received) + result)"),
            ("C07-chunked-content-length-is-the-decoded-length", "implies(old(self.body_rcv) is not None and not old(self.completed) and self.completed and self.error is None and self.chunked,"
                                                                 " 'CONTENT_LENGTH' in self.headers)"),
        ],
        modifies=["self.completed", "self.empty", "self.expect_continue", "self.headers_finished", "self.header_plus", "self.chunked",
                  "self.content_length", "self.header_bytes_received", "self.body_bytes_received", "self.body_rcv", "self.version", "self.error",
                  "self.connection_close", "self.headers", "self.first_line", "self.command", "self.request_uri", "self.path", "self.query",
                  "self.fragment", "self.proxy_scheme", "self.proxy_netloc", "self.url_scheme"]))
    reg.funcs["parser.HTTPRequestParser.received"].owns = ["self.body_rcv"]     # the receiver (and its buffer) belong to the parser
