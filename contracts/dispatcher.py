"""Contracts for task.ThreadedTaskDispatcher (C14): monitor invariant with ghost sequences."""
import z3

from vlib.contract import *
from vlib.monitor import MonitorHook, MonitorSpec, install_threading, LOCK, COND
from vlib.pyvc import NONE, VSeq, VObj, VList, VInt
from vlib.builtins_model import elem_id

D = "task.ThreadedTaskDispatcher"

MON_INV = [
    ("queue-is-submitted-minus-taken", "self.g_submitted == self.g_taken + seq(self.queue)"),
    ("stop-count-nonneg", "self.stop_count >= 0"),
    ("stop-count-bounded", "self.stop_count <= len(self.threads)"),
]


def seq(eng, lst):
    lst = eng.force(lst)
    m = eng.state.lists[lst.lid]
    if m.seq is None:
        raise Exception("list has no ghost sequence")
    return VSeq(m.seq)


def empty_seq(eng):
    return VSeq(z3.Empty(z3.SeqSort(z3.IntSort())))


def unit(eng, x):
    return VSeq(z3.Unit(elem_id(eng, x)))


class GhostHook:
    """ghost updates attached to program points by operation, not by line:
       queue.append(t)   -> g_submitted += [t]
       queue.popleft()   -> g_taken += [t];  thread-local g_mine += [t]
       t.service()       -> thread-local g_serviced += [t]     t.cancel() -> g_cancelled += [t]"""
    def __init__(self, self_getter):
        self.self_getter = self_getter

    def is_queue(self, eng, lst):
        me = self.self_getter(eng)
        q = eng.state.heap.get((me.oid, "queue")) if me else None
        return isinstance(q, VList) and q.lid == lst.lid

    def on_list_write(self, eng, lst=None, node=None, op=None, arg=None, **kw):
        if op == "append" and self.is_queue(eng, lst):
            me = self.self_getter(eng)
            cur = eng.state.heap[(me.oid, "g_submitted")]
            eng.state.heap[(me.oid, "g_submitted")] = VSeq(z3.Concat(cur.t, z3.Unit(elem_id(eng, arg))))

    def on_attr_write(self, eng, obj=None, field=None, val=None, node=None):
        # posting stop requests (set_thread_count): only a notify_all issued AFTERWARDS counts as announcing them
        me = self.self_getter(eng)
        if field == "stop_count" and me is not None and getattr(obj, "oid", None) == me.oid and eng.cur_func.split("@")[0].endswith("set_thread_count"):
            eng.state.ghost["stop_posted"] = True
            cv = eng.state.heap.get((me.oid, "queue_cv"))
            if cv is not None:
                eng.state.ghost["notified_all:%d" % eng.force(cv).oid] = False

    def on_list_pop(self, eng, lst=None, value=None, node=None):
        if self.is_queue(eng, lst):
            me = self.self_getter(eng)
            cur = eng.state.heap[(me.oid, "g_taken")]
            u = z3.Unit(elem_id(eng, value))
            eng.state.heap[(me.oid, "g_taken")] = VSeq(z3.Concat(cur.t, u))
            mine = eng.state.ghost.get("g_mine", z3.Empty(z3.SeqSort(z3.IntSort())))
            eng.state.ghost["g_mine"] = z3.Concat(mine, u)


def local(name):
    def fn(eng):
        return VSeq(eng.state.ghost.get(name, z3.Empty(z3.SeqSort(z3.IntSort()))))
    return fn


def task_effect(name):
    def eff(eng, recv, args, result):
        cur = eng.state.ghost.get(name, z3.Empty(z3.SeqSort(z3.IntSort())))
        eng.state.ghost[name] = z3.Concat(cur, z3.Unit(elem_id(eng, recv)))
        return NONE
    return eff


def alias_locks(eng, env):
    me = env["self"]
    lk = eng.state.heap[(me.oid, "lock")]
    for cv in ("queue_cv", "thread_exit_cv"):
        c = eng.state.heap[(me.oid, cv)]
        eng.state.heap[(c.oid, "lock")] = lk


def cv_flag(prefix):
    def fn(eng, condfield):
        from vlib.builtins_model import strval
        from vlib.pyvc import VBool
        me = eng.self_under_verification
        c = eng.state.heap[(me.oid, strval(condfield))]
        return VBool(bool(eng.state.ghost.get("%s:%d" % (prefix, c.oid), False)))
    return fn


def install(reg):
    reg.install_std_specs()
    reg.spec_funcs.update({"notified": cv_flag("notified"), "notified_all": cv_flag("notified_all"),
                           "stop_posted": lambda eng: __import__("vlib.pyvc", fromlist=["VBool"]).VBool(bool(eng.state.ghost.get("stop_posted", False)))})
    reg.spec_funcs.update({"seq": seq, "empty_seq": empty_seq, "unit": unit, "my_taken": local("g_mine"), "my_serviced": local("g_serviced"),
                           "my_cancelled": local("g_cancelled")})
    install_threading(reg, lambda eng: next((h for h in eng.hooks if isinstance(h, MonitorHook)), None))
    reg.add_class(ClassSpec(D, fields={
        "threads": IntSet, "queue": GList(Opaque("task")), "lock": Obj(LOCK), "queue_cv": Obj(COND), "thread_exit_cv": Obj(COND),
        "stop_count": Int, "active_count": Int, "g_submitted": SeqInt, "g_taken": SeqInt}))
    reg.demonic["task.service"] = EnvSpec(returns=None, raises=["BaseException:opaque"], effect=task_effect("g_serviced"))
    reg.demonic["task.service"].effect_first = True      # the call counts as "executed" even if the task body raises
    reg.demonic["task.cancel"] = EnvSpec(returns=None, effect=task_effect("g_cancelled"))
    reg.monitors = [MonitorSpec("lock", ["queue", "threads", "stop_count", "active_count", "g_submitted", "g_taken"], MON_INV, name="lock")]
    reg.add(FuncContract(D + ".start_new_thread", params={"target": Opaque("callable"), "thread_no": Int}))
    reg.add(FuncContract(D + ".add_task", params={"task": Opaque("task")}, setup=alias_locks, raises=[],
                         # every submission wakes a worker: a task is never left queued while an idle worker sleeps
                         ensures=[("C05-a-worker-is-woken-for-every-submitted-task", "notified('queue_cv')")],
                         monitor_preserves=[("worker-target", "len(self.threads) - self.stop_count")]))
    TARGET = ("worker-target", "len(self.threads) - self.stop_count")
    reg.add(FuncContract(D + ".handler_thread", params={"thread_no": Int}, setup=alias_locks, raises=[],
        rely=[("own-number-registered-until-this-thread-removes-it", "thread_no in self.threads")], monitor_preserves=[TARGET],
        requires=[("nothing-taken-yet", "my_taken() == empty_seq() and my_serviced() == empty_seq() and my_cancelled() == empty_seq()")],
        ensures=[("every-taken-task-serviced-exactly-once", "my_serviced() == my_taken()"), ("C14-never-cancels", "my_cancelled() == empty_seq()")],
        loops={0: LoopSpec(invariants=[("C14-serviced-equals-taken", "my_serviced() == my_taken()"), ("C14-never-cancels", "my_cancelled() == empty_seq()")]),
               1: LoopSpec(invariants=[("true", "True")])}))
    reg.add(FuncContract(D + ".set_thread_count", params={"count": Int}, setup=alias_locks, raises=[],
        requires=[("count-nonneg", "count >= 0")],
        ensures=[("target-is-count", "len(self.threads) - self.stop_count == count"),
                 # stop requests are addressed to several workers at once: all idle ones must be woken to see them
                 ("C14-all-idle-workers-woken-when-stop-requests-are-posted", "implies(stop_posted(), notified_all('queue_cv'))")],
        modifies=["self.threads", "self.stop_count", "self.active_count"],
        loops={0: LoopSpec(invariants=[("C14-running-is-target", "running == len(self.threads) - self.stop_count"),
                                       ("running-le-count-or-initial", "self.stop_count >= 0 and self.stop_count <= len(self.threads)"),
                                       ("threads-alias", "threads is self.threads"),
                                       ("submitted", "self.g_submitted == self.g_taken + seq(self.queue)")]),
               1: LoopSpec(invariants=[("true", "True")])}))
    reg.add(FuncContract(D + ".shutdown", params={"cancel_pending": Bool, "timeout": Int}, setup=alias_locks, raises=[], returns=Bool,
        requires=[("nothing-taken-yet", "my_taken() == empty_seq() and my_serviced() == empty_seq() and my_cancelled() == empty_seq()")],
        ensures=[("every-taken-task-cancelled-exactly-once", "my_cancelled() == my_taken()"), ("C14-never-services", "my_serviced() == empty_seq()"),
                 ("no-cancel-unless-asked", "implies(not cancel_pending, my_taken() == empty_seq())")],
        loops={0: LoopSpec(invariants=[("true", "True")]),
               1: LoopSpec(invariants=[("C14-cancelled-equals-taken", "my_cancelled() == my_taken()"), ("C14-never-services", "my_serviced() == empty_seq()"),
                                       ("queue-alias", "queue is self.queue"),
                                       ("submitted", "self.g_submitted == self.g_taken + seq(self.queue)"),
                                       ("C14-stop", "self.stop_count >= 0 and self.stop_count <= len(self.threads)")])}))


def attach(eng, reg, qual):
    def me(e):
        return getattr(e, "self_under_verification", None)
    eng.hooks.append(MonitorHook(reg.monitors, me))
    eng.hooks.append(GhostHook(me))
