"""C15: where the proxy-header middleware is installed (BaseWSGIServer.__init__, first segment only)."""
from vlib.contract import *

S = "server.BaseWSGIServer"
MW = "model.ProxyMiddleware"
CONFIGURED = "(bool(adj.trusted_proxy) or adj.clear_untrusted_proxy_headers)"


def install(reg):
    from contracts import parser as _p
    reg.spec_funcs["isinst"] = _p.isinst
    reg.install_std_specs()
    reg.add_class(ClassSpec("adjustments.Adjustments", fields={
        "trusted_proxy": Opt(Str), "trusted_proxy_count": Opt(Int), "trusted_proxy_headers": Opaque("kinds"),
        "clear_untrusted_proxy_headers": Bool, "log_untrusted_proxy_headers": Bool}))
    reg.add_class(ClassSpec(MW, fields={"app": Opaque("app"), "trusted_proxy": Opt(Str), "trusted_proxy_count": Opt(Int), "trusted_proxy_headers": Opaque("kinds"),
                                        "clear_untrusted": Bool, "log_untrusted": Bool}))
    # the middleware factory: the closure it returns is C15's other subject (contracts/proxy.py); here only what it was built from
    reg.add(FuncContract("proxy_headers.proxy_headers_middleware",
        params={"app": Opaque("app"), "trusted_proxy": Opt(Str), "trusted_proxy_count": Opt(Int), "trusted_proxy_headers": Opaque("kinds"),
                "clear_untrusted": Bool, "log_untrusted": Bool, "logger": Opaque("logger")},
        returns=Obj(MW), raises=[],
        ensures=[("built-from-the-arguments", "result.app is app and result.trusted_proxy == trusted_proxy and result.trusted_proxy_count == trusted_proxy_count"
                                              " and result.trusted_proxy_headers is trusted_proxy_headers and result.clear_untrusted == clear_untrusted"
                                              " and result.log_untrusted == log_untrusted")]))
    reg.funcs["proxy_headers.proxy_headers_middleware"].result_fields = {"app": "app", "trusted_proxy_headers": "trusted_proxy_headers"}
    reg.add_class(ClassSpec(S, fields={"logger": Opaque("logger")}))
    con = reg.add(FuncContract(S + ".__init__",
        params={"application": Opaque("app"), "map": Opaque("map"), "_start": Bool, "_sock": Opaque("sock"), "dispatcher": Opaque("dispatcher"),
                "adj": Obj("adjustments.Adjustments"), "sockinfo": Opaque("sockinfo"), "bind_socket": Bool, "kw": Opaque("kw")},
        raises=[], check_invariant=False))
    con.frame_check = False
    con.cuts = [Cut("if map is None:", [
        ("C15-middleware-installed-whenever-proxy-handling-is-configured",
         "implies(%s, isinst(application, 'ProxyMiddleware'))" % CONFIGURED),
        ("C15-middleware-gets-the-configured-trust-settings",
         "implies(%s, application.app is old(application) and application.trusted_proxy == adj.trusted_proxy"
         " and application.trusted_proxy_count == adj.trusted_proxy_count and application.trusted_proxy_headers is adj.trusted_proxy_headers"
         " and application.clear_untrusted == adj.clear_untrusted_proxy_headers and application.log_untrusted == adj.log_untrusted_proxy_headers)" % CONFIGURED),
        ("C15-application-untouched-otherwise", "implies(not %s, application is old(application))" % CONFIGURED),
        ("C15-adjustments-object-kept", "adj is old(adj)"),
    ], {})]
    con.only_segments = [0]
    # `adj` is taken as given (not None): with adj=None the constructor builds it with Adjustments(**kw) (C20's subject) and continues identically
    con.unreachable_ok = ("adj = Adjustments(**kw)",)
