"""Contracts of the C02 lemma functions (lemmas/lemma_c02.py)."""
from vlib.contract import *

FX = "receiver.FixedStreamReceiver"
PR = "parser.HTTPRequestParser"
T4 = "b'\\r\\n\\r\\n'"


def install(reg):
    from contracts import adj, buffers_abs, receiver, parser
    adj.install(reg)
    buffers_abs.install(reg)
    receiver.install(reg)
    parser.install(reg)
    # the lemmas never look inside a parser's receiver or error object: keep them opaque (fewer case splits)
    reg.classes[PR].fields["body_rcv"] = Opt(Opaque("receiver"))
    reg.classes[PR].fields["error"] = Opt(Opaque("error"))
    reg.classes[PR].invariants = [("head-phase-carry-has-no-terminator", "implies(not self.headers_finished and not self.completed,"
                                   " %s not in self.header_plus and self.header_bytes_received == len(self.header_plus))" % T4)]
    reg.add(FuncContract("lemma_c02.fixed_split", params={"r1": Obj(FX), "r2": Obj(FX), "a": Bytes, "b": Bytes}, returns=None, raises=[],
        requires=[("same-state", "r1.remain == r2.remain and r1.completed == r2.completed and r1.buf.view == r2.buf.view"),
                  ("in-progress", "not r1.completed and r1.remain >= 1")],
        ensures=[("C02-same-bytes-consumed", "result[0] == result[1]"),
                 ("C02-same-body-collected", "r1.buf.view == r2.buf.view"),
                 ("C02-same-remaining-length", "r1.remain == r2.remain"),
                 ("C02-same-completion", "r1.completed == r2.completed")]))
    reg.funcs["lemma_c02.fixed_split"].frame_check = False
    same = " and ".join("p1.%s == p2.%s" % (f, f) for f in ("header_plus", "header_bytes_received", "completed", "headers_finished"))
    reg.add(FuncContract("lemma_c02.head_split", params={"p1": Obj(PR), "p2": Obj(PR), "a": Bytes, "b": Bytes}, returns=None, raises=[],
        requires=[("same-state", same + " and p1.adj.max_request_header_size == p2.adj.max_request_header_size"),
                  ("header-phase", "not p1.completed and not p1.headers_finished and p1.body_rcv is None and p2.body_rcv is None"),
                  ("nonempty-first-read", "len(a) >= 1"),
                  ("below-the-header-limit", "p1.header_bytes_received + len(a) + len(b) < p1.adj.max_request_header_size")],
        ensures=[("C02-same-bytes-consumed-by-the-head", "result[0] == result[1]"),
                 ("C02-same-head-completion", "p1.headers_finished == p2.headers_finished"),
                 ("C02-same-carry-over", "implies(not p1.headers_finished, p1.header_plus == p2.header_plus)")]))
    reg.funcs["lemma_c02.head_split"].frame_check = False
    reg.add(FuncContract("lemma_c02.first_terminator_is_stable", params={"x": Bytes, "y": Bytes}, returns=None, raises=[],
        requires=[("has-a-terminator", "x.find(%s) >= 0" % T4)],
        ensures=[("same-first-terminator", "(x + y).find(%s) == x.find(%s)" % (T4, T4)),
                 ("same-first-two-bytes", "(x + y).startswith(b'\\r\\n') == x.startswith(b'\\r\\n')")]))
    CR = "receiver.ChunkedReceiver"
    # the lemma does not need the representation invariant of the receiver (it is stated for MORE states than the reachable ones)
    reg.classes[CR].invariants = []
    reg.add(FuncContract("lemma_c02.trailer_split", params={"c1": Obj(CR), "c2": Obj(CR), "a": Bytes, "b": Bytes}, returns=None, raises=[],
        requires=[("same-state", "c1.trailer == c2.trailer and c1.buf.view == c2.buf.view"),
                  ("trailer-phase", "c1.all_chunks_received and c2.all_chunks_received and not c1.completed and not c2.completed"
                                    " and c1.error is None and c2.error is None"),
                  ("nonempty-reads", "len(a) >= 1 and len(b) >= 1")],
        ensures=[("C02-same-bytes-consumed-by-the-trailer", "result[0] == result[1]"),
                 ("C02-same-trailer-completion", "c1.completed == c2.completed"),
                 ("C02-same-trailer-carry-over", "implies(not c1.completed, c1.trailer == c2.trailer)")]))
    reg.funcs["lemma_c02.trailer_split"].frame_check = False
