"""Contracts for waitress/adjustments.py (C20): validation logic of Adjustments.__init__."""
import re

import z3

from vlib.contract import *
from vlib.pyvc import NONE, VBool, VDict, DictModel, VOpaque
from vlib.builtins_model import strval

A = "adjustments.Adjustments"
GROUP_KEYS = ["listen", "host", "port", "sockets", "unix_socket", "send_bytes"]
KINDS = ["x-forwarded-for", "x-forwarded-host", "x-forwarded-proto", "x-forwarded-port", "x-forwarded-by", "forwarded"]
HDR_NAMES = KINDS + ["FORWARDED", "X-Forwarded-For", "bogus-kind"]


def has(eng, d, key):
    from contracts.proxy import _entry
    p, _ = _entry(eng, d, key)
    return VBool(p)


def groups(eng, kw):
    """number of mutually exclusive socket-option groups present in kw: {listen} {host,port} {sockets} {unix_socket}"""
    from vlib.pyvc import VInt
    g = lambda *ks: z3.Or([has(eng, kw, eng.const(k)).t for k in ks])
    return VInt(z3.Sum([z3.If(g("listen"), 1, 0), z3.If(g("host", "port"), 1, 0), z3.If(g("sockets"), 1, 0), z3.If(g("unix_socket"), 1, 0)]))


def setup_kw(eng, env):
    ents = {k: (eng.fresh_bool("kw[%s]" % k).t, VOpaque("value")) for k in GROUP_KEYS}
    env["kw"] = eng.new_dict(DictModel(ents, False, None, "kw"))


def install(reg):
    reg.install_std_specs()
    reg.spec_funcs.update({"has": has, "groups": groups})
    reg.add_class(ClassSpec(A, fields={"trusted_proxy": Opt(Str), "trusted_proxy_count": Opt(Int), "trusted_proxy_headers": ("strset", HDR_NAMES)}))
    con = reg.add(FuncContract(A + ".__init__", params={"kw": Opaque("kw")}, setup=setup_kw, raises=["ValueError"], check_invariant=False,
        ensures_exc=[("C20-refused-only-for-two-exclusive-groups", "implies(eng_segment() == 0, groups(kw) >= 2)"),
                     ("C20-proxy-refusals-are-justified", "implies(eng_segment() == 2, (old(self.trusted_proxy) is None and (old(self.trusted_proxy_count) is not None or old(bool(self.trusted_proxy_headers))))"
                                                          " or not old(only_known_kinds(self.trusted_proxy_headers)) or old(forwarded_mixed(self.trusted_proxy_headers)))")]))
    con.frame_check = False
    con.cuts = [
        Cut("for k, v in kw.items():", [("C20-at-most-one-exclusive-group-accepted", "groups(kw) <= 1")]),
        Cut(re.compile(r"^if self\.trusted_proxy_count\b"), []),          # the first proxy cross-check, however its condition is spelt
        Cut("self.listen = wanted_sockets", [
            ("C20-count-needs-trusted_proxy", "implies(self.trusted_proxy is None, old(self.trusted_proxy_count) is None)"),
            ("C20-headers-need-trusted_proxy", "implies(self.trusted_proxy is None, not old(bool(self.trusted_proxy_headers)))"),
            ("C20-only-known-header-kinds", "old(only_known_kinds(self.trusted_proxy_headers))"),
            ("C20-forwarded-excludes-x-forwarded", "not old(forwarded_mixed(self.trusted_proxy_headers))"),
            ("C20-count-defaults-to-one", "self.trusted_proxy_count is not None"),
        ]),
    ]
    con.only_segments = [0, 2]
    con.max_paths = 8000       # 2^6 subsets of header kinds x presence of count / proxy: the default budget is just enough for the current code

    def eng_segment(eng):
        from vlib.pyvc import VInt
        return VInt(eng.segment)

    def members(eng, d):
        d = eng.force(d)
        m = eng.state.dicts[d.did]
        return m.entries

    def only_known_kinds(eng, d):
        ents = members(eng, d)
        bad = [p for k, (p, _) in ents.items() if k.lower() not in KINDS]
        return VBool(z3.Not(z3.Or(bad)) if bad else z3.BoolVal(True))

    def forwarded_mixed(eng, d):
        ents = members(eng, d)
        fw = [p for k, (p, _) in ents.items() if k.lower() == "forwarded"]
        other = [p for k, (p, _) in ents.items() if k.lower() != "forwarded"]
        return VBool(z3.And(z3.Or(fw) if fw else z3.BoolVal(False), z3.Or(other) if other else z3.BoolVal(False)))
    reg.spec_funcs.update({"eng_segment": eng_segment, "only_known_kinds": only_known_kinds, "forwarded_mixed": forwarded_mixed})
    reg.externals["warnings.warn"] = lambda eng, args, kwargs, node, fr: NONE
