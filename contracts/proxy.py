"""Contracts for waitress/proxy_headers.py (C15, C16)."""
import z3

from vlib.contract import *
from vlib.pyvc import NONE, VBool, VDict, VInt, VList, VObj, VOpaque, VStr, VTuple, DictModel
from vlib.builtins_model import strval

PH = "proxy_headers"
PROXY_KEYS = ["HTTP_X_FORWARDED_FOR", "HTTP_X_FORWARDED_HOST", "HTTP_X_FORWARDED_PROTO", "HTTP_X_FORWARDED_PORT", "HTTP_X_FORWARDED_BY", "HTTP_FORWARDED"]
META_KEYS = ["REMOTE_ADDR", "REMOTE_HOST", "REMOTE_PORT", "SERVER_NAME", "SERVER_PORT", "HTTP_HOST", "wsgi.url_scheme"]
KINDS = ["x-forwarded-for", "x-forwarded-host", "x-forwarded-proto", "x-forwarded-port", "x-forwarded-by", "forwarded"]


# ------------------------------------------------------------------ spec functions over dict snapshots
def _entry(eng, d, key):
    d = eng.force(d)
    k = strval(eng.force(key))
    m = eng.state.dicts[d.did]
    if k in m.entries:
        return m.entries[k]
    if m.open:
        return eng.dict_lazy_entry(m, k)
    return (z3.BoolVal(False), NONE)


def same_entry(eng, d1, d2, key):
    """key is present in both dicts with the same value, or absent from both"""
    p1, v1 = _entry(eng, d1, key)
    p2, v2 = _entry(eng, d2, key)
    if isinstance(v1, VStr) and isinstance(v2, VStr):
        return VBool(z3.And(p1 == p2, z3.Implies(p1, v1.t == v2.t)))
    return VBool(z3.And(p1 == p2, z3.BoolVal(v1 is v2 or (not isinstance(v1, VStr) and not isinstance(v2, VStr)))))


def absent(eng, d, key):
    p, _ = _entry(eng, d, key)
    return VBool(z3.Not(p))


def app_environ(eng):
    if "app_environ" not in eng.state.ghost:
        # the application was never called on this path: an empty environ (the call-count clause fails separately)
        eng.state.ghost["app_environ"] = eng.new_dict(DictModel({}, False, None, "no-app-call"))
    return eng.state.ghost["app_environ"]


def app_called(eng):
    return VInt(eng.state.ghost.get("app_calls", 0))


def parse_calls(eng):
    return VInt(eng.state.ghost.get("parse_calls", 0))


def app_effect(eng, recv, args, result):
    env = eng.force(args[0])
    # snapshot of the environ the application receives
    snap = eng.new_dict(eng.state.dicts[env.did].copy())
    eng.state.dicts[snap.did].shared_with = env.did
    eng.state.ghost["app_environ"] = snap
    eng.state.ghost["app_environ_live"] = env
    eng.state.ghost["app_calls"] = eng.state.ghost.get("app_calls", 0) + 1
    return VOpaque("app_iter")


class ProxyHook:
    def on_call(self, eng, qual=None, args=None, kwargs=None, node=None, frame=None):
        if qual == PH + ".parse_proxy_headers":
            eng.state.ghost["parse_calls"] = eng.state.ghost.get("parse_calls", 0) + 1

    def on_dict_write(self, eng, d=None, key=None, val=None, node=None):
        # C15 frame: on the untrusted path the only writes to environ are removals of proxy-header keys
        if eng.cur_func.endswith("<translate_proxy_headers>") or eng.cur_func.endswith("clear_untrusted_headers"):
            env = eng.state.ghost.get("environ_under_check")
            if env is not None and d.did == env.did:
                k = strval(eng.force(key)) if key is not None else None
                eng.oblige("%s/C15:environ-writes-only-remove-proxy-headers" % eng.cur_func,
                           z3.BoolVal(val is None and k in PROXY_KEYS), clause="environ is only changed by popping one of the six HTTP_<proxy header> keys", kind="frame")


def mark_environ(eng, env):
    eng.state.ghost["environ_under_check"] = env["environ"]


def install(reg):
    reg.install_std_specs()
    reg.spec_funcs.update({"same_entry": same_entry, "absent": absent, "app_environ": app_environ, "app_called": app_called, "parse_calls": parse_calls})
    reg.demonic["call:app"] = EnvSpec(returns=None, effect=app_effect)
    reg.add_class(ClassSpec(PH + ".MalformedProxyHeader", fields={"header": Str, "reason": Str, "value": Str}))
    reg.add(FuncContract(PH + ".MalformedProxyHeader.__init__", params={"header": Str, "reason": Str, "value": Str}, fresh_self=True,
                         modifies=["self.header", "self.reason", "self.value"]))
    reg.add_class(ClassSpec("utilities.BadRequest", fields={"body": Str}))
    reg.add(FuncContract("utilities.Error.__init__", params={"body": Str}, fresh_self=True, inline=True))
    reg.add(FuncContract("utilities.Error.wsgi_response", params={"environ": Opaque("environ"), "start_response": Opaque("sr")}, returns=Opaque("generator")))
    ENV = DictOf(Str1)
    # ------------------------------------------------------------- C15: the middleware, untrusted peer
    untrusted = "trusted_proxy != '*' and environ['REMOTE_ADDR'] != trusted_proxy"
    ens = [("C15-application-called-once", "app_called() == 1"), ("C15-headers-not-parsed", "parse_calls() == 0")]
    for k in META_KEYS:
        ens.append(("C15-%s-untouched" % k, "same_entry(app_environ(), old(environ), %r)" % k))
    for k in PROXY_KEYS:
        ens.append(("C15-%s-cleared-or-passed-through" % k, "absent(app_environ(), %r) if clear_untrusted else same_entry(app_environ(), old(environ), %r)" % (k, k)))
    reg.add(FuncContract(PH + ".proxy_headers_middleware.<translate_proxy_headers>",
        params={"environ": ENV, "start_response": Opaque("sr")},
        free={"app": Opaque("app"), "trusted_proxy": Opt(Str), "trusted_proxy_count": Int, "trusted_proxy_headers": Opaque("kinds"),
              "clear_untrusted": Bool, "log_untrusted": Bool, "logger": Opaque("logger")},
        requires=[("remote-addr-present", "'REMOTE_ADDR' in environ"), ("C15-peer-is-not-the-trusted-proxy", "trusted_proxy is None or (%s)" % untrusted)],
        raises=[], ensures=ens, setup=mark_environ))
    reg.add(FuncContract(PH + ".clear_untrusted_headers", params={"environ": ENV, "untrusted_headers": Opaque("hdrs"), "log_warning": Bool, "logger": Opaque("logger")},
                         inline=True))
    reg.inline.add(PH + ".clear_untrusted_headers")
    reg.funcs[PH + ".proxy_headers_middleware.<translate_proxy_headers>"].unreachable_ok = ('if trusted_proxy == "*" or remote_peer == trusted_proxy:',)
    install_parse(reg)


def trusted(eng, kind):
    if "kinds" not in eng.state.ghost:
        ents = {k: (eng.fresh_bool("trusted[%s]" % k).t, NONE) for k in KINDS}
        eng.state.ghost["kinds"] = eng.new_dict(DictModel(ents, False, None, "kinds"))
    d = eng.state.ghost["kinds"]
    p, _ = _entry(eng, d, kind)
    return VBool(p)


def setup_parse(eng, env):
    # trusted_proxy_headers: any subset of the six known kinds (a closed map kind -> symbolic presence)
    ents = {k: (eng.fresh_bool("trusted[%s]" % k).t, NONE) for k in KINDS}
    d = eng.new_dict(DictModel(ents, False, None, "kinds"))
    env["trusted_proxy_headers"] = d
    eng.state.ghost["kinds"] = d


def install_parse(reg):
    reg.spec_funcs["trusted"] = trusted
    NT = "namedtuple:proxy_headers.Forwarded"
    reg.add_class(ClassSpec(NT, fields={"by": Str1, "for_": Str1, "host": Str1, "proto": Str1}))
    reg.add(FuncContract("utilities.undquote", params={"value": Str1}, returns=Str1, raises=["ValueError"],
        ensures=[("unquoted-value-passes-through", "implies(not value.startswith('\"') and not value.endswith('\"'), result == value)"),
                 ("C16-half-quoted-value-is-refused", "value.startswith('\"') == value.endswith('\"')")],
        ensures_exc=[("raises-only-for-values-touching-a-quote", "value.startswith('\"') or value.endswith('\"')")]))
    reg.inline.add(PH + ".strip_brackets")
    reg.inline.add(PH + ".parse_proxy_headers.<raise_for_multiple_values>")
    ENV = DictOf(Str1)
    S = Str1
    ens = [
        ("C16-client-address-only-from-trusted-kinds", "implies(not trusted('x-forwarded-for') and not trusted('forwarded'),"
            " same_entry(environ, old(environ), 'REMOTE_ADDR') and same_entry(environ, old(environ), 'REMOTE_HOST') and same_entry(environ, old(environ), 'REMOTE_PORT'))"),
        ("C16-host-only-from-trusted-kinds", "implies(not trusted('x-forwarded-host') and not trusted('forwarded'),"
            " same_entry(environ, old(environ), 'SERVER_NAME') and same_entry(environ, old(environ), 'HTTP_HOST'))"),
        ("C16-scheme-only-from-trusted-kinds", "implies(not trusted('x-forwarded-proto') and not trusted('forwarded'), same_entry(environ, old(environ), 'wsgi.url_scheme'))"),
        ("C16-port-only-from-trusted-kinds", "implies(not trusted('x-forwarded-port') and not trusted('x-forwarded-proto') and not trusted('x-forwarded-host') and not trusted('forwarded'),"
            " same_entry(environ, old(environ), 'SERVER_PORT'))"),
    ]
    for kind, key in zip(KINDS[:5], ["X_FORWARDED_FOR", "X_FORWARDED_HOST", "X_FORWARDED_PROTO", "X_FORWARDED_PORT", "X_FORWARDED_BY"]):
        ens.append(("C16-%s-stripped-unless-trusted" % kind, "implies(not trusted(%r), %r in result)" % (kind, key)))
    ens.append(("C16-forwarded-stripped-unless-trusted", "implies(not trusted('forwarded'), 'FORWARDED' in result)"))
    UNSET = ["X_FORWARDED_FOR", "X_FORWARDED_HOST", "X_FORWARDED_PROTO", "X_FORWARDED_PORT", "X_FORWARDED_BY", "FORWARDED"]
    FLOW = [
        ("C16-proto-value-only-from-trusted-kinds", "implies(forwarded_proto != '', trusted('x-forwarded-proto') or trusted('forwarded'))"),
        ("C16-host-value-only-from-trusted-kinds", "implies(forwarded_host != '', trusted('x-forwarded-host') or trusted('forwarded'))"),
        ("C16-port-value-only-from-trusted-kinds", "implies(forwarded_port != '', trusted('x-forwarded-port') or trusted('x-forwarded-proto') or trusted('x-forwarded-host') or trusted('forwarded'))"),
        ("C16-address-value-only-from-trusted-kinds", "implies(client_addr is not None and client_addr != '', trusted('x-forwarded-for') or trusted('forwarded'))"),
        ("C16-forwarded-value-only-if-trusted", "implies(forwarded is not None and forwarded != '', trusted('forwarded'))"),
        ("C16-forwarded-is-the-header-value", "implies(forwarded is not None and forwarded != '', 'HTTP_FORWARDED' in environ)"),
    ]
    UNCHANGED = lambda keys: [("C16-%s-untouched-so-far" % k, "same_entry(environ, old(environ), %r)" % k) for k in keys]
    ALLMETA = UNCHANGED(META_KEYS)
    STRIP = lambda upto: [("C16-%s-still-listed-unless-trusted" % KINDS[i], "implies(not trusted(%r) and not trusted('forwarded'), %r in untrusted_headers)" % (KINDS[i], UNSET[i])) for i in range(upto)]
    PENDING = lambda frm: [("C16-%s-not-yet-removed" % UNSET[i], "%r in untrusted_headers" % UNSET[i]) for i in range(frm, 5)]
    LOC = lambda fwd_is_list, fwd_opt: {"forwarded_for": (ListOf(S) if fwd_is_list else S), "forwarded_host": S, "forwarded_proto": S, "forwarded_port": S,
                                        "forwarded": (Opt(S) if fwd_opt else S), "client_addr": Opt(S), "untrusted_headers": ("strset", UNSET)}
    pp = reg.add(FuncContract(PH + ".parse_proxy_headers",
        params={"environ": ENV, "trusted_proxy_count": Int, "trusted_proxy_headers": Opaque("kinds"), "logger": Opaque("logger")},
        requires=[("count-positive", "trusted_proxy_count >= 1"), ("environ-has-peer-and-scheme", "'REMOTE_ADDR' in environ and 'wsgi.url_scheme' in environ")],
        raises=[PH + ".MalformedProxyHeader"], ensures=ens, setup=setup_parse, returns=("strset", ["X_FORWARDED_FOR", "X_FORWARDED_HOST", "X_FORWARDED_PROTO", "X_FORWARDED_PORT", "X_FORWARDED_BY", "FORWARDED"]),
        loops={0: LoopSpec(invariants=[("true", "True")], types={"forwarded_for": ListOf(S)}),
               1: LoopSpec(invariants=[("true", "True")], types={"forwarded_host_multiple": ListOf(S)}),
               2: LoopSpec(invariants=[("true", "True")], types={"proxies": ListOf(Obj(NT, lazy=True)), "forwarded_for": S, "forwarded_host": S, "forwarded_proto": S,
                                                                "forwarded_port": S, "forwarded_by": S}),
               3: LoopSpec(invariants=[("true", "True")], types={"forwarded_for": S, "forwarded_host": S, "forwarded_proto": S, "forwarded_by": S}),
               4: LoopSpec(invariants=[("true", "True")] + [FLOW[0], FLOW[1], FLOW[3]], types={"client_addr": Opt(S), "forwarded_host": S, "forwarded_proto": S})}))
    pp.loops[3].entry_only = [("C16-hop-values-reset-for-every-element",
                               "forwarded_for == '' and forwarded_host == '' and forwarded_proto == '' and forwarded_by == ''")]
    anchors = ['"x-forwarded-host" in trusted_proxy_headers', 'if "x-forwarded-proto" in trusted_proxy_headers:', 'if "x-forwarded-port" in trusted_proxy_headers:',
               'if "x-forwarded-by" in trusted_proxy_headers:', 'if "forwarded" in trusted_proxy_headers:', "if forwarded:", "if forwarded_proto:",
               "if forwarded_host:", "if forwarded_port:", "if client_addr:"]
    cuts = []
    for i, a in enumerate(anchors):
        inv = list(FLOW)
        if i <= 4:                                    # before / between the X-Forwarded-* blocks and the Forwarded selection
            inv += ALLMETA + STRIP(i + 1) + PENDING(i + 1) + [("C16-forwarded-still-listed", "'FORWARDED' in untrusted_headers")]
            loc = LOC(True, False)
        elif i == 5:                                  # if forwarded:
            inv += ALLMETA + [(n, t.replace(" and not trusted('forwarded')", "")) for n, t in STRIP(5)] + [("C16-forwarded-listed-unless-trusted", "implies(not trusted('forwarded'), 'FORWARDED' in untrusted_headers)")]
            loc = LOC(True, True)
        else:
            done = {6: [], 7: ["wsgi.url_scheme"], 8: ["wsgi.url_scheme", "SERVER_NAME", "HTTP_HOST"], 9: ["wsgi.url_scheme", "SERVER_NAME", "HTTP_HOST", "SERVER_PORT"]}[i]
            inv += UNCHANGED([k for k in META_KEYS if k not in done])
            inv += [e for e in ens if any(d in e[1] for d in done) and "result" not in e[1]]
            inv += [(n, t.replace(" and not trusted('forwarded')", "")) for n, t in STRIP(5)] + [("C16-forwarded-listed-unless-trusted", "implies(not trusted('forwarded'), 'FORWARDED' in untrusted_headers)")]
            loc = LOC(False, True)
        cuts.append(Cut(a, inv, loc))
    pp.cuts = cuts
    pp.unreachable_ok = ("trusted_proxy_headers = set()",)     # the middleware always passes a set (Adjustments normalises None)


def attach(eng, reg, qual):
    eng.hooks.append(ProxyHook())
