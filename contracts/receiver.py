"""Contracts for waitress/receiver.py (C01, C02, C06, C07)."""
from vlib.contract import *

CRLF = "b'\\r\\n'"
T4 = "b'\\r\\n\\r\\n'"

CHUNKED_INV = [
    ("remainder-nonneg", "self.chunk_remainder >= 0"),
    ("chunk-end-phase", "implies(self.validate_chunk_end, self.chunk_remainder == 0 and len(self.chunk_end) < 2)"),
    ("chunk-end-carry", "implies(not self.validate_chunk_end, self.chunk_end == b'')"),
    ("control-carry-no-crlf", "%s not in self.control_line" % CRLF),
    ("trailer-empty-before-last-chunk", "implies(not self.all_chunks_received, self.trailer == b'')"),
    ("trailer-carry", "implies(not self.completed, %s not in self.trailer and not self.trailer.startswith(%s))" % (T4, CRLF)),
    ("control-carry-only-in-control-phase", "implies(self.chunk_remainder > 0 or self.validate_chunk_end or self.all_chunks_received, self.control_line == b'')"),
    ("error-ends-chunks", "implies(self.error is not None, self.all_chunks_received)"),
    ("after-last-chunk", "implies(self.all_chunks_received, self.chunk_remainder == 0 and not self.validate_chunk_end and self.control_line == b'')"),
    ("completed-means-trailer-phase", "implies(self.completed, self.all_chunks_received)"),
]


def install(reg):
    from contracts.parser import fdn
    reg.spec_funcs["fdn"] = fdn
    reg.add_class(ClassSpec("utilities.BadRequest", fields={"body": Str}))
    reg.add(FuncContract("utilities.Error.__init__", params={"body": Str}, fresh_self=True, inline=True))
    reg.add_class(ClassSpec("receiver.FixedStreamReceiver",
                            fields={"remain": Int, "buf": Obj("buffers.OverflowableBuffer"), "completed": Bool},
                            invariants=[("remain-nonneg", "self.remain >= 0"), ("completed-means-done", "implies(self.completed, self.remain == 0)")]))
    reg.add(FuncContract("receiver.FixedStreamReceiver.received", params={"data": Bytes}, returns=Int,
        ensures=[
            ("result-range", "0 <= result <= len(data)"),
            ("consumed", "result == (min(old(self.remain), len(data)) if old(self.remain) >= 1 else 0)"),
            ("appended", "self.buf.view == old(self.buf.view) + data[:result]"),
            ("remain", "self.remain == old(self.remain) - result"),
            ("completed", "implies(old(self.remain) >= 1, self.completed == (self.remain == 0))"),
            ("completed-when-nothing-remains", "implies(old(self.remain) < 1, self.completed)"),
            ("progress", "implies(old(self.remain) >= 1 and len(data) >= 1, result >= 1)"),
        ],
        modifies=["self.remain", "self.completed", "self.buf.view"]))
    reg.add(FuncContract("receiver.FixedStreamReceiver.__len__", returns=Int, ensures=[("len", "result == len(self.buf.view)")]))

    reg.add_class(ClassSpec("receiver.ChunkedReceiver",
                            fields={"chunk_remainder": Int, "validate_chunk_end": Bool, "control_line": Bytes, "chunk_end": Bytes,
                                    "all_chunks_received": Bool, "trailer": Bytes, "completed": Bool,
                                    "error": Opt(Obj("utilities.BadRequest")), "buf": Obj("buffers.OverflowableBuffer")},
                            invariants=CHUNKED_INV))
    loop_inv = [(n, t.replace("self.", "self.")) for n, t in CHUNKED_INV] + [
        ("s-bounded", "len(s) <= orig_size or (self.error is not None and self.trailer == b'' and len(s) <= orig_size + 1)"),
        ("C02-trailer-untouched-while-input-left", "implies(len(s) > 0, self.trailer == old(self.trailer))"),
        ("orig-size", "orig_size == len(old(s))"),
        ("C02-trailer-phase-carry", "implies(old(self.all_chunks_received) and old(self.error) is None and len(s) == 0 and len(old(s)) > 0 and not self.completed,"
                                " self.trailer == old(self.trailer) + old(s) and self.all_chunks_received and self.error is None)"),
        ("C02-trailer-phase-call-sees-the-whole-input", "implies(old(self.all_chunks_received) and old(self.error) is None and len(s) > 0,"
                                                    " s == old(s) and self.all_chunks_received and self.error is None)"),
        ("not-completed-in-loop", "not self.completed"),
        ("view-extends", "self.buf.view.startswith(old(self.buf.view))"),
        ("error-stops", "implies(self.error is not None, True)"),
    ]
    reg.add(FuncContract("receiver.ChunkedReceiver.received", params={"s": Bytes}, returns=Int,
        ensures=[
            ("result-range", "0 <= result <= len(s)"),
            ("completed-returns-0", "implies(old(self.completed), result == 0)"),
            ("progress", "implies(not old(self.completed) and len(s) >= 1, result >= 1)"),
            ("view-extends", "self.buf.view.startswith(old(self.buf.view))"),
            ("not-completed-consumes-all", "implies(not self.completed, result == len(s))"),
            ("C02-no-trailer-consumes-exactly-up-to-the-final-crlf",
             "implies(old(self.all_chunks_received) and not old(self.completed) and old(self.error) is None and (old(self.trailer) + s).startswith(%s),"
             " self.completed and result == 2 - len(old(self.trailer)))" % CRLF),
            ("C02-trailer-consumes-exactly-up-to-its-end",
             "implies(old(self.all_chunks_received) and not old(self.completed) and old(self.error) is None and not (old(self.trailer) + s).startswith(%s)"
             " and fdn(old(self.trailer) + s) >= 0, self.completed and result == fdn(old(self.trailer) + s) - len(old(self.trailer)))" % CRLF),
            ("C02-unfinished-trailer-is-carried-over",
             "implies(old(self.all_chunks_received) and not old(self.completed) and old(self.error) is None and not (old(self.trailer) + s).startswith(%s)"
             " and fdn(old(self.trailer) + s) < 0 and len(s) > 0, not self.completed and self.trailer == old(self.trailer) + s and result == len(s)"
             " and self.all_chunks_received and self.error is None)" % CRLF),
        ],
        loops={0: LoopSpec(invariants=loop_inv, variant="(0 if self.all_chunks_received else 1, len(s))"),
               1: LoopSpec(invariants=[("no-error-while-validating-the-trailer", "self.error is None")])},
        modifies=["self.chunk_remainder", "self.validate_chunk_end", "self.control_line", "self.chunk_end", "self.all_chunks_received",
                  "self.trailer", "self.completed", "self.error", "self.buf.view"]))
    # the trailer section is validated line by line, and the lines are its CRLF-separated pieces: cutting it anywhere else (at a bare LF or a bare
    # CR, as every "line boundary" splitter does) lets a section through whose lines a downstream reader delimits differently
    reg.funcs["receiver.ChunkedReceiver.received"].loops[1].iterates = ("C01-the-trailer-section-is-cut-at-crlf-only", "\r\n", "trailer[:pos - 4]")
    reg.add(FuncContract("receiver.ChunkedReceiver.__len__", returns=Int, ensures=[("len", "result == len(self.buf.view)")]))
    reg.inline.add("utilities.find_double_newline")
    from vlib.regex_facts import RegexFacts
    reg.regex_facts = RegexFacts(reg.repo)
    reg.regex_facts.install(reg)
