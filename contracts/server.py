"""Contracts for waitress/server.py (C18 admission / reap guard, C13 listener safety)."""
import z3

from vlib.contract import *
from vlib.pyvc import NONE, VBool, VInt, VObj, VOpaque

S = "server.BaseWSGIServer"
CHM = "model.ReapChannel"


def maint_calls(eng):
    return VInt(eng.state.ghost.get("maint_calls", 0))


def clock(eng):
    return VInt(eng.state.ghost.get("clock", 0))


class ServerHook:
    def on_call(self, eng, qual=None, args=None, kwargs=None, node=None, frame=None):
        if qual.endswith(".maintenance"):
            eng.state.ghost["maint_calls"] = eng.state.ghost.get("maint_calls", 0) + 1

    """C18 reap guard: every write of will_close on a channel inside maintenance() happens for a channel with no request in
    progress whose last activity is older than the cutoff."""
    def on_attr_write(self, eng, obj=None, field=None, val=None, node=None):
        if field == "will_close" and isinstance(obj, VObj) and obj.cls == CHM and eng.cur_func.endswith("maintenance"):
            env = eng.entry_env
            req = eng.getattr(obj, "requests")
            la = eng.force(eng.getattr(obj, "last_activity"))
            # the cutoff is stated over the parameter and the configuration, not over a local of the current code
            timeout = eng.force(eng.getattr(eng.force(eng.getattr(env["self"], "adj")), "channel_timeout"))
            now = eng.force(env["now"])
            eng.oblige("%s/C18:reaps-only-idle-and-stale-connections" % eng.cur_func,
                       z3.And(z3.Not(eng.truth(req)), la.t < now.t - timeout.t),
                       clause="channel.will_close is set only when channel.requests is empty and channel.last_activity < now - channel_timeout", kind="assert")


def install(reg):
    from contracts import adj
    adj.install(reg)
    reg.install_std_specs()
    reg.spec_funcs.update({"maint_calls": maint_calls, "clock": clock})
    reg.add_class(ClassSpec(CHM, fields={"requests": ListOf(Opaque("request")), "last_activity": Int, "will_close": Bool}))
    reg.add_class(ClassSpec(S, fields={"next_channel_cleanup": Int, "adj": Obj("adjustments.Adjustments"), "accepting": Bool, "in_connection_overflow": Bool,
                                       "_map": ListOf(Opaque("dispatcher")), "active_channels": Opaque("channels")}))
    reg.demonic["channels.values"] = EnvSpec(returns=ListOf(Obj(CHM, lazy=True)))
    reg.add(FuncContract(S + ".maintenance", params={"now": Int}, raises=[],
        loops={0: LoopSpec(invariants=[("true", "True")])}))
    reg.funcs[S + ".maintenance"].loops[0].body_post = [
        ("C18-idle-and-stale-connection-is-marked",
         "implies(len(channel.requests) == 0 and channel.last_activity < now - self.adj.channel_timeout, channel.will_close)")]
    reg.add(FuncContract(S + ".readable", returns=Bool, raises=[],
        ensures=[("C18-admission-only-below-the-limit", "implies(result, self.accepting and len(self._map) < self.adj.connection_limit)"),
                 ("C18-accepting-resumes-below-the-limit", "implies(self.accepting and len(self._map) < self.adj.connection_limit, result)"),
                 ("C18-overflow-flag-tracks-the-limit", "implies(self.accepting, self.in_connection_overflow == (len(self._map) >= self.adj.connection_limit))"),
                 ("map-untouched", "len(self._map) == old(len(self._map))"),
                 ("C18-maintenance-runs-whenever-it-is-due", "implies(clock() >= old(self.next_channel_cleanup), maint_calls() == 1)"),
                 ("C18-next-cleanup-scheduled", "implies(clock() >= old(self.next_channel_cleanup), self.next_channel_cleanup == clock() + self.adj.cleanup_interval)")],
        modifies=["self.next_channel_cleanup", "self.in_connection_overflow"]))
    install_accept(reg)


def install_accept(reg):
    CONN = "model.Conn"
    TCP = "server.TcpWSGIServer"
    reg.add_class(ClassSpec(CONN, fields={"closed": Bool}, env_methods={
        "setsockopt": EnvSpec(returns=None, raises=["OSError"]), "close": EnvSpec(returns=None, raises=["OSError"])}))
    reg.add_class(ClassSpec(TCP, fields={"next_channel_cleanup": Int, "adj": Obj("adjustments.Adjustments"), "accepting": Bool, "in_connection_overflow": Bool,
                                         "_map": ListOf(Opaque("dispatcher")), "active_channels": Opaque("channels")}))
    reg.add(FuncContract("wasyncore.dispatcher.accept", returns=Opt(TupleOf(Obj(CONN), Opaque("addr"))), raises=["OSError"], cls=TCP))
    reg.add(FuncContract(TCP + ".set_socket_options", params={"conn": Obj(CONN)}, raises=["OSError"]))
    reg.inline.add(S + ".fix_addr")
    reg.add_class(ClassSpec("channel.HTTPChannel", fields={}))
    # HTTPChannel(server, sock, addr, adj, map): sock.getsockopt / sock.setblocking may fail (OSError) BEFORE the channel is registered;
    # on success exactly one entry is added to the map
    reg.add(FuncContract("channel.HTTPChannel.__init__", params={"server": Obj(TCP), "sock": Obj(CONN), "addr": Opaque("addr"), "adj": Obj("adjustments.Adjustments"),
                                                                 "map": ListOf(Opaque("dispatcher"))},
        fresh_self=True, raises=["OSError"],
        ensures=[("registers-one-entry", "len(map) == old(len(map)) + 1")],
        ensures_exc=[("nothing-registered-on-failure", "len(map) == old(len(map))")], modifies=["map"], check_invariant=False))
    reg.funcs["channel.HTTPChannel.__init__"].frame_check = False
    reg.add(FuncContract(S + ".handle_accept", cls=TCP, raises=[],
        ensures=[("C13-listener-keeps-accepting", "self.accepting == old(self.accepting)"),
                 ("C18-at-most-one-new-descriptor", "len(self._map) <= old(len(self._map)) + 1")],
        ensures_exc=[("C13-listener-keeps-accepting", "self.accepting == old(self.accepting)")], modifies=["self._map"]))


def attach(eng, reg, qual):
    eng.hooks.append(ServerHook())
