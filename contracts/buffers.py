"""Contracts for waitress/buffers.py over an assumed file model (C17).

File model (assumption, validated by the bounded stand-in against real BytesIO / TemporaryFile):
a file is (content: bytes, pos: int) with 0 <= pos; read(n) returns content[pos:pos+n] (all of it for n < 0)
and advances pos; write(s) at pos <= len(content) overwrites/extends and advances pos; seek(off, whence) with
whence 0/1/2; tell() == pos.  I/O errors are outside the model."""
import z3

from vlib.contract import *
from vlib.pyvc import NONE, VBool, VInt, VObj, VStr, VNone, RaiseSig, VExc, OutOfSubset

FILE = "io.File"


def _f(eng, recv, name):
    return eng.state.heap[(recv.oid, name)]


def f_tell(eng, recv, args, result):
    return _f(eng, recv, "pos")


def f_seek(eng, recv, args, result):
    off = eng.force(args[0])
    whence = eng.force(args[1]) if len(args) > 1 else VInt(0)
    w = z3.simplify(whence.t)
    pos = _f(eng, recv, "pos").t
    ln = z3.Length(_f(eng, recv, "content").t)
    if not z3.is_int_value(w):
        raise OutOfSubset("seek with symbolic whence")
    w = w.as_long()
    new = {0: off.t, 1: pos + off.t, 2: ln + off.t}[w]
    # a negative resulting position raises (OSError/ValueError); positions beyond EOF are legal for files
    eng.builtin_pre("ValueError", new >= 0, None)
    eng.state.heap[(recv.oid, "pos")] = VInt(z3.simplify(new))
    return VInt(new)


def f_read(eng, recv, args, result):
    n = eng.force(args[0]).t if args and not isinstance(eng.force(args[0]), VNone) else z3.IntVal(-1)
    content, pos = _f(eng, recv, "content").t, _f(eng, recv, "pos").t
    ln = z3.Length(content)
    avail = z3.If(ln - pos > 0, ln - pos, 0)
    take = z3.If(n < 0, avail, z3.If(n < avail, n, avail))
    res = z3.SubString(content, pos, take)
    eng.state.heap[(recv.oid, "pos")] = VInt(z3.simplify(pos + take))
    return VStr(z3.simplify(res), True)


def f_write(eng, recv, args, result):
    s = eng.force(args[0])
    content, pos = _f(eng, recv, "content").t, _f(eng, recv, "pos").t
    ln = z3.Length(content)
    # writing beyond EOF zero-fills the gap; waitress never does that: obligation, not assumption
    eng.oblige("%s/file-model:write-not-beyond-eof" % eng.cur_func, pos <= ln, clause="file.write() is only called at or before end of file", kind="assert")
    sl = z3.Length(s.t)
    tail_start = pos + sl
    tail = z3.If(tail_start < ln, z3.SubString(content, tail_start, ln - tail_start), z3.StringVal(""))
    new = z3.Concat(z3.SubString(content, 0, pos), s.t, tail)
    eng.state.heap[(recv.oid, "content")] = VStr(z3.simplify(new), True)
    eng.state.heap[(recv.oid, "pos")] = VInt(z3.simplify(pos + sl))
    return VInt(sl)


def f_close(eng, recv, args, result):
    eng.state.heap[(recv.oid, "closed")] = VBool(True)
    n = eng.state.ghost.get("closes:%d" % recv.oid, 0)
    eng.state.ghost["closes:%d" % recv.oid] = n + 1
    return NONE


def new_file(eng, args, kwargs, node, fr):
    o = eng.new_obj(FILE)
    eng.state.heap[(o.oid, "content")] = VStr(b"", True)
    eng.state.heap[(o.oid, "pos")] = VInt(0)
    eng.state.heap[(o.oid, "closed")] = VBool(False)
    return o


FB_INV = [
    ("pos-in-range", "0 <= self.file.pos <= len(self.file.content)"),
    ("remain-is-unread-length", "self.remain == len(self.file.content) - self.file.pos"),
]
VIEW = "self.file.content[self.file.pos:]"


def install(reg):
    reg.install_std_specs()
    from contracts.parser import isinst
    reg.spec_funcs["isinst"] = isinst
    reg.add_class(ClassSpec(FILE, fields={"content": Bytes, "pos": Int, "closed": Bool}, env_methods={
        "tell": EnvSpec(returns=Int, effect=f_tell),
        "seek": EnvSpec(returns=Int, effect=f_seek),
        "read": EnvSpec(returns=Bytes, effect=f_read),
        "write": EnvSpec(returns=Int, effect=f_write),
        "close": EnvSpec(returns=None, effect=f_close),
        "seekable": EnvSpec(returns=Bool, ensures=["result"]),
    }))
    reg.externals["io.BytesIO"] = new_file
    reg.externals["tempfile.TemporaryFile"] = new_file
    for cls in ("buffers.FileBasedBuffer", "buffers.TempfileBasedBuffer", "buffers.BytesIOBasedBuffer"):
        reg.add_class(ClassSpec(cls, fields={"file": Obj(FILE), "remain": Int}, invariants=FB_INV, ghost_props={"view": VIEW}))
    fb = "buffers.FileBasedBuffer"
    reg.add(FuncContract(fb + ".__len__", returns=Int, ensures=[("len-is-view-length", "result == len(self.view)")]))
    reg.add(FuncContract(fb + ".append", params={"s": Bytes},
        ensures=[("fifo-append", "self.view == old(self.view) + s"), ("position-restored", "self.file.pos == old(self.file.pos)")],
        modifies=["self.remain", "self.file.content", "self.file.pos"]))
    reg.add(FuncContract(fb + ".get", params={"numbytes": Int, "skip": Bool}, returns=Bytes,
        requires=[("numbytes-ge-minus1", "numbytes >= -1")],
        ensures=[("result-is-prefix", "old(self.view).startswith(result)"),
                 ("result-length", "len(result) == (len(old(self.view)) if numbytes < 0 else min(numbytes, len(old(self.view))))"),
                 ("peek-leaves-queue", "implies(not skip, self.view == old(self.view) and self.file.pos == old(self.file.pos))"),
                 ("consume-removes-exactly-result", "implies(skip, old(self.view) == result + self.view)"),
                 ("content-untouched", "self.file.content == old(self.file.content)")],
        modifies=["self.remain", "self.file.pos"]))
    reg.add(FuncContract(fb + ".skip", params={"numbytes": Int, "allow_prune": Bool},
        requires=[("numbytes-nonneg", "numbytes >= 0")],
        raises=["ValueError"], raises_when=[("ValueError", "numbytes > len(self.view)")],
        ensures=[("drops-exactly-numbytes", "self.view == old(self.view)[numbytes:]"), ("content-untouched", "self.file.content == old(self.file.content)")],
        ensures_exc=[("unchanged-on-error", "self.view == old(self.view) and self.remain == old(self.remain)"),
                     ("raises-only-when-too-many", "numbytes > len(old(self.view))")],
        modifies=["self.remain", "self.file.pos"]))
    reg.add(FuncContract(fb + ".getfile", result_is="self.file", ensures=[("is-the-file", "result is self.file")]))
    reg.add(FuncContract(fb + ".close", ensures=[("file-closed", "self.file.closed"), ("remain-zero", "self.remain == 0")],
                         modifies=["self.remain", "self.file.closed"], check_invariant=False))
    # copying constructor: FileBasedBuffer.__init__(file, from_buffer)
    reg.add(FuncContract(fb + ".__init__", params={"file": Obj(FILE), "from_buffer": Opt(Obj("buffers.FileBasedBuffer"))}, fresh_self=True,
        requires=[("fresh-target-file", "file.content == b'' and file.pos == 0"),
                  ("source-well-formed", "implies(from_buffer is not None, 0 <= from_buffer.file.pos <= len(from_buffer.file.content)"
                                         " and from_buffer.remain == len(from_buffer.file.content) - from_buffer.file.pos)")],
        ensures=[("queue-preserved", "implies(from_buffer is not None, self.view == old(from_buffer.view))"),
                 ("source-untouched", "implies(from_buffer is not None, from_buffer.file.content == old(from_buffer.file.content) and from_buffer.file.pos == old(from_buffer.file.pos))"),
                 ("empty-when-no-source", "implies(from_buffer is None, self.view == b'' and self.remain == 0)"),
                 ("owns-file", "self.file is file")],
        loops={0: LoopSpec(invariants=[
            ("copied-prefix", "file.content == from_file.content[:from_file.pos]"),
            ("target-at-end", "file.pos == len(file.content)"),
            ("source-pos-in-range", "0 <= from_file.pos <= len(from_file.content)"),
            ("source-content-untouched", "from_file.content == old(from_buffer.file.content)"),
        ], variant="len(from_file.content) - from_file.pos", modifies=["file.content", "file.pos", "from_file.pos"])},
        modifies=["self.file", "self.remain", "file.content", "file.pos"]))
    # ---- BytesIO / tempfile backed buffers: constructors are inlined (they delegate to FileBasedBuffer.__init__)
    reg.inline.update({"buffers.TempfileBasedBuffer.__init__", "buffers.BytesIOBasedBuffer.__init__",
                       "buffers.OverflowableBuffer._create_buffer", "buffers.OverflowableBuffer._set_small_buffer",
                       "buffers.OverflowableBuffer._set_large_buffer"})
    ob = "buffers.OverflowableBuffer"
    inner = OneOf(Obj("buffers.BytesIOBasedBuffer"), Obj("buffers.TempfileBasedBuffer"))
    reg.add_class(ClassSpec(ob, fields={"overflowed": Bool, "buf": Opt(inner), "strbuf": Bytes, "overflow": Int},
        invariants=[("file-buffer-excludes-strbuf", "implies(self.buf is not None, self.strbuf == b'')"),
                    ("overflowed-means-tempfile", "self.overflowed == isinst(self.buf, 'TempfileBasedBuffer')"),
                    ("inner-pos-in-range", "implies(self.buf is not None, 0 <= self.buf.file.pos <= len(self.buf.file.content))"),
                    ("inner-remain", "implies(self.buf is not None, self.buf.remain == len(self.buf.file.content) - self.buf.file.pos)")],
        ghost_props={"view": "self.strbuf if self.buf is None else self.buf.view"}))
    reg.add(FuncContract(ob + ".__len__", returns=Int, ensures=[("len-is-queue-length", "result == len(self.view)")]))
    reg.add(FuncContract(ob + ".append", params={"s": Bytes},
        ensures=[("fifo-append", "self.view == old(self.view) + s")]))
    reg.add(FuncContract(ob + ".get", params={"numbytes": Int, "skip": Bool}, returns=Bytes,
        requires=[("numbytes-ge-minus1", "numbytes >= -1")],
        ensures=[("result-is-prefix", "old(self.view).startswith(result)"),
                 ("at-least-as-long-as-requested", "implies(numbytes >= 0, len(result) >= min(numbytes, len(old(self.view))))"),
                 ("all-when-negative", "implies(numbytes < 0, result == old(self.view))"),
                 ("peek-leaves-queue", "implies(not skip, self.view == old(self.view))"),
                 ("consume-removes-exactly-result", "implies(skip, old(self.view) == result + self.view)")]))
    reg.add(FuncContract(ob + ".skip", params={"numbytes": Int, "allow_prune": Bool},
        requires=[("numbytes-nonneg", "numbytes >= 0")], raises=["ValueError"],
        ensures=[("drops-exactly-numbytes", "self.view == old(self.view)[numbytes:] and numbytes <= len(old(self.view))")],
        ensures_exc=[("raises-only-when-too-many", "numbytes > len(old(self.view))")]))
    reg.add(FuncContract(ob + ".getfile", returns=Obj(FILE),
        ensures=[("file-view-is-queue", "result.content[result.pos:] == old(self.view)"), ("queue-unchanged", "self.view == old(self.view)")]))
    reg.add(FuncContract(ob + ".close", check_invariant=False))
    # ---- read-only file buffer (wsgi.file_wrapper), seekable file
    ro = "buffers.ReadOnlyFileBasedBuffer"
    reg.add_class(ClassSpec(ro, fields={"file": Obj(FILE), "remain": Int, "block_size": Int}, inherit=False))
    reg.add(FuncContract(ro + ".prepare", params={"size": Opt(Int)}, returns=Int,
        requires=[("pos-in-range", "0 <= self.file.pos <= len(self.file.content)")],
        ensures=[("remain-all-when-no-size", "implies(size is None, self.remain == len(self.file.content) - self.file.pos)"),
                 ("remain-clamped", "implies(size is not None, self.remain == min(len(self.file.content) - self.file.pos, size))"),
                 ("returns-remain", "result == self.remain"),
                 ("file-position-unchanged", "self.file.pos == old(self.file.pos) and self.file.content == old(self.file.content)")]))
    reg.add(FuncContract(ro + ".get", params={"numbytes": Int, "skip": Bool}, returns=Bytes,
        requires=[("prepared", "0 <= self.file.pos and 0 <= self.remain <= len(self.file.content) - self.file.pos"), ("numbytes-ge-minus1", "numbytes >= -1")],
        ensures=[("never-more-than-prepared", "len(result) <= old(self.remain)"),
                 ("is-file-window", "result == old(self.file.content)[old(self.file.pos):old(self.file.pos) + len(result)]"),
                 ("length", "len(result) == (old(self.remain) if (numbytes == -1 or numbytes > old(self.remain)) else numbytes)"),
                 ("peek-restores-position", "implies(not skip, self.file.pos == old(self.file.pos) and self.remain == old(self.remain))"),
                 ("consume-advances", "implies(skip, self.file.pos == old(self.file.pos) + len(result) and self.remain == old(self.remain) - len(result))")]))
    # skip() is inherited from FileBasedBuffer: for the read-only buffer `remain` is the PREPARED size, not the rest of the file, so the
    # inherited body must move the file forward by exactly numbytes (the channel calls skip() after every partial send of a file wrapper)
    reg.add(FuncContract(ro + ".skip", params={"numbytes": Int, "allow_prune": Bool},
        requires=[("prepared", "0 <= self.file.pos and 0 <= self.remain <= len(self.file.content) - self.file.pos"), ("numbytes-nonneg", "numbytes >= 0")],
        raises=["ValueError"], raises_when=[("ValueError", "numbytes > self.remain")],
        ensures=[("C17-file-advances-by-exactly-the-skipped-bytes", "self.file.pos == old(self.file.pos) + numbytes"),
                 ("C17-prepared-size-shrinks-by-the-skipped-bytes", "self.remain == old(self.remain) - numbytes"),
                 ("content-untouched", "self.file.content == old(self.file.content)")],
        ensures_exc=[("unchanged-on-error", "self.file.pos == old(self.file.pos) and self.remain == old(self.remain)")],
        modifies=["self.remain", "self.file.pos"]))
    reg.funcs[ro + ".skip"].impl = "buffers.FileBasedBuffer.skip"
    reg.inline.update({"buffers.TempfileBasedBuffer.newfile", "buffers.BytesIOBasedBuffer.newfile", "buffers._is_seekable"})
