"""C02 lemmas over the CONTRACTS of the real receive functions (the bodies are verified against the same
contracts in C01/C06): feeding a.b in one read or as a then b leaves the same state and the same byte
accounting.  These functions are verified by pyvc with every call to .received() replaced by its contract."""


def fixed_split(r1, r2, a, b):
    # r1, r2: two FixedStreamReceiver objects in the same state (precondition); a, b: arbitrary byte strings
    n_ab = r1.received(a + b)
    n_a = r2.received(a)
    if n_a == len(a) and not r2.completed:
        n_b = r2.received(b)
        total = n_a + n_b
    else:
        total = n_a
    return n_ab, total


def first_terminator_is_stable(x, y):
    # helper lemma (its contract is the statement): appending bytes to a string that already holds CRLFCRLF moves neither the
    # first CRLFCRLF nor the first two bytes
    return None


def head_split(p1, p2, a, b):
    # p1, p2: two HTTPRequestParser objects in the same header-phase state; no size limit reached in either run
    if (p1.header_plus + a).find(b"\r\n\r\n") >= 0:
        first_terminator_is_stable(p1.header_plus + a, b)
    n_ab = p1.received(a + b)
    n_a = p2.received(a)
    if not p2.completed and not p2.headers_finished:
        n_b = p2.received(b)
        total = n_a + n_b
    else:
        total = n_a
    return n_ab, total


def trailer_split(c1, c2, a, b):
    # c1, c2: two ChunkedReceiver objects in the same trailer-phase state (last chunk seen, no error)
    # proof hint only (no effect on the calls below): split the argument by where the trailer ends
    t = c1.trailer
    if (t + a).startswith(b"\r\n"):
        case = 1
    elif (t + a).find(b"\r\n\r\n") >= 0:
        case = 2
        # the first terminator and the first two bytes are already fixed by t + a
        first_terminator_is_stable(t + a, b)
    elif (t + a + b).startswith(b"\r\n"):
        case = 3
    elif (t + a + b).find(b"\r\n\r\n") >= 0:
        case = 4
    else:
        case = 5
    n_ab = c1.received(a + b)
    n_a = c2.received(a)
    if not c2.completed:
        n_b = c2.received(b)
        total = n_a + n_b
    else:
        total = n_a
    return n_ab, total
