"""Grammar oracles written from RFC 9110/9112 ABNF as quoted in the property
statements (C10, C01).  Regexes are relang ASTs over bytes 0..255."""
from vlib.relang import (EPS, ralt, rcat, rlit, ropt, rplus, rset, rstar, mask_of, mask_range, FULL)

DIGIT = rset(mask_range(0x30, 0x39))
HEXDIG = rset(mask_of(b"0123456789abcdefABCDEF"))
ALPHA_M = mask_range(0x41, 0x5A) | mask_range(0x61, 0x7A)
TCHAR_M = mask_of(b"!#$%&'*+-.^_`|~") | mask_range(0x30, 0x39) | ALPHA_M
TCHAR = rset(TCHAR_M)
TOKEN = rplus(TCHAR)
SP = rset(mask_of(b" "))
HTAB = rset(mask_of(b"\t"))
OWS = rstar(rset(mask_of(b" \t")))
VCHAR_M = mask_range(0x21, 0x7E)
OBS_M = mask_range(0x80, 0xFF)
FIELD_VCHAR = rset(VCHAR_M | OBS_M)

# quoted-string = DQUOTE *( qdtext / quoted-pair ) DQUOTE           (RFC 9110 5.6.4)
QDTEXT = rset(mask_of(b"\t !") | mask_range(0x23, 0x5B) | mask_range(0x5D, 0x7E) | OBS_M)
QUOTED_PAIR = rcat(rlit(b"\\"), rset(mask_of(b"\t ") | VCHAR_M | OBS_M))
QUOTED_STRING = rcat(rlit(b'"'), rstar(ralt(QDTEXT, QUOTED_PAIR)), rlit(b'"'))

# Content-Length = 1*DIGIT ; chunk-size = 1*HEXDIG
CONTENT_LENGTH = rplus(DIGIT)
CHUNK_SIZE = rplus(HEXDIG)
# chunk-ext = *( ";" token [ "=" ( token / quoted-string ) ] )      (as quoted in C10; no BWS)
CHUNK_EXT = rstar(rcat(rlit(b";"), TOKEN, ropt(rcat(rlit(b"="), ralt(TOKEN, QUOTED_STRING)))))
CHUNK_LINE = rcat(CHUNK_SIZE, CHUNK_EXT)

# field-line = token ":" OWS field-value OWS ; field-value is empty or begins and ends with a
# field-vchar and has only field-vchar / SP / HTAB inside (RFC 9110 5.5)
FIELD_VALUE = ropt(ralt(FIELD_VCHAR, rcat(FIELD_VCHAR, rstar(ralt(FIELD_VCHAR, SP, HTAB)), FIELD_VCHAR)))
HEADER_LINE = rcat(TOKEN, rlit(b":"), OWS, FIELD_VALUE, OWS)

# request-line = token SP target [ SP "HTTP/" DIGIT "." DIGIT ]
# request-target (RFC 9112 3.2) is built from RFC 3986 characters, all of them visible ASCII;
# the grammar oracle takes the loosest regular superset with that alphabet: 1*VCHAR.
# (An earlier draft also admitted %x80-FF; that demanded acceptance of bytes no URI can contain.)
TARGET = rplus(rset(VCHAR_M))
HTTP_VERSION = rcat(rlit(b"HTTP/"), DIGIT, rlit(b"."), DIGIT)
REQUEST_LINE = rcat(TOKEN, SP, TARGET, ropt(rcat(SP, HTTP_VERSION)))

# bytes that may precede the request line: empty lines only (RFC 9112 2.2)
LEADING_EMPTY_LINES = rstar(rlit(b"\r\n"))

# python int() literal syntax for bytes/latin-1 str input (used for "conversion after the gate")
_WS = rstar(rset(mask_of(b" \t\n\r\x0b\x0c")))
_SIGN = ropt(rset(mask_of(b"+-")))
PY_INT10 = rcat(_WS, _SIGN, rplus(DIGIT), rstar(rcat(rlit(b"_"), rplus(DIGIT))), _WS)
PY_INT16 = rcat(_WS, _SIGN, ropt(rcat(rlit(b"0"), rset(mask_of(b"xX")), ropt(rlit(b"_")))), rplus(HEXDIG),
                rstar(rcat(rlit(b"_"), rplus(HEXDIG))), _WS)
